// TSan glue interface (tsan variant only)
#pragma once
#include <stdint.h>
namespace tsanglue {
static const int MAX_RECORDS = 64;
struct Record { char sig[400]; };
void init();
int count();
const Record &get(int i);
void clear();
unsigned long seen();
unsigned long rejected();
uintptr_t lib_base();
}
