// TSan glue (tsan variant only; this file itself is NOT instrumented).
// Reports are taken structurally through __tsan_on_report / __tsan_get_report_*; a report is accepted only
// if, for both accesses, the first frame that is neither a libc interceptor nor libstdc++/libc lies inside
// librx.so (the instrumented library). Records are parked in a static table and drained by the executor.
#include "tsan_glue.hpp"
#include "seams.hpp"
#include <link.h>
#include <dlfcn.h>
#include <stdio.h>
#include <string.h>
#include <stdint.h>
#include <stdlib.h>

extern "C" {
int __tsan_get_report_data(void *report, const char **description, int *count, int *stack_count, int *mop_count, int *loc_count, int *mutex_count, int *thread_count,
                           int *unique_tid_count, void **sleep_trace, unsigned long trace_size);
int __tsan_get_report_mop(void *report, unsigned long idx, int *tid, void **addr, int *size, int *write, int *atomic, void **trace, unsigned long trace_size);
int __tsan_get_report_loc(void *report, unsigned long idx, const char **type, void **addr, unsigned long *start, unsigned long *size, int *tid, int *fd, int *suppressable,
                          void **trace, unsigned long trace_size);
}

namespace tsanglue {

static uintptr_t g_lib_lo = 0, g_lib_hi = 0, g_exe_lo = 0, g_exe_hi = 0;
static Record g_rec[MAX_RECORDS];
static volatile int g_nrec = 0;
static volatile unsigned long g_seen = 0, g_rejected = 0;

static int phdr_cb(struct dl_phdr_info *info, size_t, void *) {
	uintptr_t lo = ~(uintptr_t)0, hi = 0;
	for (int i = 0; i < info->dlpi_phnum; ++i) {
		if (info->dlpi_phdr[i].p_type != PT_LOAD) continue;
		uintptr_t a = info->dlpi_addr + info->dlpi_phdr[i].p_vaddr, b = a + info->dlpi_phdr[i].p_memsz;
		if (a < lo) lo = a;
		if (b > hi) hi = b;
	}
	const char *n = info->dlpi_name;
	if (n && strstr(n, "librx.so")) { g_lib_lo = lo; g_lib_hi = hi; }
	else if (!n || !*n) { if (!g_exe_lo) { g_exe_lo = lo; g_exe_hi = hi; } }
	return 0;
}

void init() { dl_iterate_phdr(phdr_cb, nullptr); }
uintptr_t lib_base() { return g_lib_lo; }
static inline bool in_lib(uintptr_t p) { return p >= g_lib_lo && p < g_lib_hi; }
static inline bool in_exe(uintptr_t p) { return p >= g_exe_lo && p < g_exe_hi; }

// first frame attributable to code that made the access: skip leading exe frames (interceptors), then
// frames in other DSOs (libstdc++, libc); return 0 if the responsible frame is not in librx.so
static uintptr_t responsible_frame(void **trace, int n) {
	int i = 0;
	if (i < n && in_lib((uintptr_t)trace[i])) return (uintptr_t)trace[i];
	while (i < n && trace[i] && in_exe((uintptr_t)trace[i])) ++i;           // interceptor frames
	while (i < n && trace[i] && !in_exe((uintptr_t)trace[i]) && !in_lib((uintptr_t)trace[i])) ++i; // libstdc++/libc
	if (i < n && trace[i] && in_lib((uintptr_t)trace[i])) return (uintptr_t)trace[i];
	return 0;
}

int count() { return g_nrec; }
const Record &get(int i) { return g_rec[i]; }
void clear() { g_nrec = 0; }
unsigned long seen() { return g_seen; }
unsigned long rejected() { return g_rejected; }

} // namespace tsanglue

static void capture_report(void *report) {
	using namespace tsanglue;
	++g_seen;
	const char *desc = nullptr; int cnt = 0, stacks = 0, mops = 0, locs = 0, mutexes = 0, threads = 0, utids = 0; void *sleep[1];
	__tsan_get_report_data(report, &desc, &cnt, &stacks, &mops, &locs, &mutexes, &threads, &utids, sleep, 1);
	if (!desc || strcmp(desc, "data-race") != 0 || mops < 2) { ++g_rejected; return; }
	uintptr_t pcs[2] = {0, 0}; int wr[2] = {0, 0}, tid[2] = {0, 0}, sz[2] = {0, 0}, depth[2] = {0, 0};
	void *addr0 = nullptr;
	for (int m = 0; m < 2; ++m) {
		void *trace[32]; memset(trace, 0, sizeof trace);
		void *addr = nullptr; int atomic = 0;
		__tsan_get_report_mop(report, (unsigned long)m, &tid[m], &addr, &sz[m], &wr[m], &atomic, trace, 32);
		if (m == 0) addr0 = addr;
		int n = 0; while (n < 32 && trace[n]) ++n;
		depth[m] = n;
		pcs[m] = responsible_frame(trace, n);
	}
	// TSan could not restore the stack of the earlier access (it left the per-thread history ring): the report is
	// still about library state if the racy address is a librx.so global or lies in a live library-scope block and
	// the access that does have a stack is library code. The simulator never touches such memory outside
	// __tsan_ignore_thread_begin/end.
	static const uintptr_t UNKNOWN_PC = 1;
	for (int m = 0; m < 2; ++m) {
		if (!pcs[m] && depth[m] == 0 && pcs[1 - m]) {
			uintptr_t a = (uintptr_t)addr0;
			if ((a >= g_lib_lo && a < g_lib_hi) || seam::in_live_library_block(addr0)) pcs[m] = UNKNOWN_PC;
		}
	}
	if (!pcs[0] || !pcs[1]) {
		++g_rejected;
		if (getenv("RXSIM_TSAN_DEBUG")) {
			for (int m = 0; m < 2; ++m) {
				void *trace[32]; memset(trace, 0, sizeof trace); void *addr = nullptr; int atomic = 0, t2, s2, w2;
				__tsan_get_report_mop(report, (unsigned long)m, &t2, &addr, &s2, &w2, &atomic, trace, 32);
				fprintf(stderr, "REJECTED mop%d tid=%d w=%d size=%d:", m, t2, w2, s2);
				for (int i = 0; i < 8 && trace[i]; ++i) { uintptr_t p = (uintptr_t)trace[i]; fprintf(stderr, " %s+0x%lx", in_lib(p) ? "lib" : in_exe(p) ? "exe" : "other", (unsigned long)(in_lib(p) ? p - g_lib_lo : in_exe(p) ? p - g_exe_lo : p)); }
				fprintf(stderr, "\n");
			}
		}
		return;
	}
	char loc[96] = "loc=unknown";
	if (locs > 0) {
		const char *type = nullptr; void *laddr = nullptr; unsigned long start = 0, size = 0; int ltid = 0, fd = 0, supp = 0; void *tr[4];
		__tsan_get_report_loc(report, 0, &type, &laddr, &start, &size, &ltid, &fd, &supp, tr, 4);
		if (type && !strcmp(type, "global")) {
			uintptr_t a = (uintptr_t)(start ? (void *)start : addr0);
			if (a >= g_lib_lo && a < g_lib_hi) snprintf(loc, sizeof loc, "loc=global:lib+0x%lx", (unsigned long)(a - g_lib_lo));
			else snprintf(loc, sizeof loc, "loc=global:foreign");
		} else if (type && !strcmp(type, "heap")) snprintf(loc, sizeof loc, "loc=heap(size=%lu)", size); // the offset varies with the plan; the block size names the object
		else if (type) snprintf(loc, sizeof loc, "loc=%s", type);
	} else if ((uintptr_t)addr0 >= g_lib_lo && (uintptr_t)addr0 < g_lib_hi) snprintf(loc, sizeof loc, "loc=global:lib+0x%lx", (unsigned long)((uintptr_t)addr0 - g_lib_lo));
	// order the two accesses canonically (by pc) so the signature does not depend on which thread came second
	int a = 0, b = 1;
	if (pcs[1] < pcs[0]) { a = 1; b = 0; }
	static unsigned long accepted = 0;
	if (++accepted >= 512) seam::g_tsan_flood = 1;
	int n = g_nrec;
	if (n >= MAX_RECORDS) return;
	// pc - 1: report frames are return-address style for callers, access pc for frame 0; symbolisation uses the containing function
	char pa[48], pb[48];
	if (pcs[a] == UNKNOWN_PC) snprintf(pa, sizeof pa, "unknown-stack"); else snprintf(pa, sizeof pa, "lib+0x%lx(%s%d)", (unsigned long)(pcs[a] - g_lib_lo), wr[a] ? "w" : "r", sz[a]);
	if (pcs[b] == UNKNOWN_PC) snprintf(pb, sizeof pb, "unknown-stack"); else snprintf(pb, sizeof pb, "lib+0x%lx(%s%d)", (unsigned long)(pcs[b] - g_lib_lo), wr[b] ? "w" : "r", sz[b]);
	snprintf(g_rec[n].sig, sizeof g_rec[n].sig, "race %s %s %s", pa, pb, loc);
	g_nrec = n + 1;
}

// Overrides the runtime's weak hook (it runs before the report is printed): the report is taken structurally here and
// the textual report is suppressed (RXSIM_TSAN_PRINT=1 keeps it, for inspecting a replay by hand).
namespace __tsan {
struct ReportDesc;
bool OnReport(const ReportDesc *rep, bool) {
	capture_report((void *)rep);
	return getenv("RXSIM_TSAN_PRINT") == nullptr;
}
}

extern "C" const char *__tsan_default_options() {
	return "symbolize=0:history_size=7:report_thread_leaks=0:suppress_equal_stacks=0:suppress_equal_addresses=0:exitcode=0:halt_on_error=0:report_signal_unsafe=0:detect_deadlocks=0:handle_segv=0:handle_sigbus=0:handle_sigfpe=0:handle_sigill=0:handle_abort=0";
}
