// rxsim seams implementation (see seams.hpp). Not instrumented by any sanitizer.
#include "seams.hpp"
#include "../rt/rt.hpp"
#include <errno.h>
#include <signal.h>
#include <stdio.h>
#include <stdlib.h>
#include <string.h>
#include <unistd.h>
#include <sys/mman.h>
#include <sys/stat.h>
#include <ucontext.h>
#include <map>
#include <algorithm>
#include <new>
#include <exception>
#include <typeinfo>
#include <cxxabi.h>
#include <link.h>
#include <dlfcn.h>

extern "C" {
void __tsan_ignore_thread_begin(const char *, int) __attribute__((weak));
void __tsan_ignore_thread_end(const char *, int) __attribute__((weak));
}

namespace seam {

static const size_t PG = 4096;
#ifdef RXSIM_TSAN
static const bool kArena = false;
#else
static const bool kArena = true;
#endif
static const size_t ARENA_BYTES = (size_t)192 << 30;
static const size_t DROP_ON_FREE = (size_t)16 << 20; // freed heap blocks at least this big lose their pages at once

static __thread OpCtx *t_ctx = nullptr;
static __thread int t_in_seam = 0;

void tsan_ignore_begin() { if (__tsan_ignore_thread_begin) __tsan_ignore_thread_begin(__FILE__, __LINE__); }
void tsan_ignore_end() { if (__tsan_ignore_thread_end) __tsan_ignore_thread_end(__FILE__, __LINE__); }

// Instruction-level preemption (plain variant). While a shot is armed on a thread, the CPU's trap flag is set
// whenever the thread runs library code; every instruction then raises SIGTRAP, the handler counts the ones whose PC
// lies in librx.so's text or in a code buffer the library mapped, and after the budgeted number it parks the thread
// right there and lets another simulated thread run (rt::sched_yield_point_forced). A thread can thereby be suspended
// between any two instructions of the library - including hand-written assembly, JIT-emitted code and code TSan
// cannot instrument - and the position is a function of the plan (op, instruction count), so it replays.
static __thread uint32_t t_step_left = 0;   // library instructions still to run before the switch (0 = not armed)
static __thread int t_step_on = 0;
static __thread uint32_t t_step_foreign = 0;
static __thread OpCtx *t_step_ctx = nullptr;
static inline void tf_set() { __asm__ volatile("pushfq\n\torq $0x100, (%%rsp)\n\tpopfq" ::: "memory", "cc"); }
static inline void tf_clear() { __asm__ volatile("pushfq\n\tandq $~0x100, (%%rsp)\n\tpopfq" ::: "memory", "cc"); }

struct InSeam {
	InSeam() { if (t_step_on) tf_clear(); ++t_in_seam; tsan_ignore_begin(); }
	~InSeam() { tsan_ignore_end(); --t_in_seam; if (t_step_on && t_in_seam == 0) tf_set(); }
};

enum { ST_LIVE = 1, ST_FREED = 2 };
struct Block {
	uintptr_t user = 0;
	size_t size = 0;
	uintptr_t page_lo = 0; // arena blocks only
	size_t npages = 0;
	int kind = 0;
	int state = ST_LIVE;
	int op_index = -1, req_ord = 0, owner_class = 0, task = 0;
	uint64_t fileid = 0;        // != 0: view of a file / shared-memory object (dev, inode), mapped by the real kernel at its own address
	const char *op_name = "";
	bool arena = false;
	int zone = 0;              // 0: run zone (wiped after every run), 1: model zone (persistent)
	bool reused = false;
	size_t align = 16;          // tiny slab blocks: alignment class
	std::vector<uint8_t> prot;  // per page, library view (mmap kinds) / RW for heap
	std::vector<int8_t> hprot;  // per page harness override (-1 = none)
};

// constructed in process_init(): librx.so's static initialisers allocate before ours would have run
static std::map<uintptr_t, Block> *g_blocks_p = nullptr;  // key: page_lo (arena) or user pointer
static std::map<std::pair<size_t, int>, std::vector<uintptr_t>> *g_freelist_p = nullptr; // (npages, is_mmap + 2*zone) -> freed page_lo (LIFO)
#define g_blocks (*g_blocks_p)
#define g_freelist (*g_freelist_p)
static bool g_ready = false;
static uintptr_t g_arena = 0;
// The arena has two zones. Zone 0 serves the simulated history and is wiped after every run, so every run
// starts from the same address layout. Zone 1 serves the reference-model computations (fresh objects that
// outlive a run); it gives them the same guard pages, so a model computation that runs off a block faults
// deterministically instead of corrupting the real heap.
struct Zone { size_t first_page; size_t max_pages; size_t bump; size_t high; };
static Zone g_zone[2];
// Tiny-block slab (plain variant). Blocks below OBJ_BLOCK come from a bump region at the end of zone 0. Which
// address a request gets is a function of the run's history and of the op's heap policy (HP_REUSE_TINY: LIFO reuse
// of a freed block of the same size class, preferring one that was freed by the same kind of request), never of the
// real allocator's state: the library compares small-object addresses too (a dataset struct is 16 bytes).
static const size_t TINY_BYTES = (size_t)8 << 30, TINY_STEP = (size_t)16 << 20;
static uintptr_t g_tiny_lo = 0;
static size_t g_tiny_bump = 0, g_tiny_commit = 0, g_tiny_high = 0;
struct TinyFree { uintptr_t p; const char *op_name; int req_ord; };
static std::map<std::pair<size_t, size_t>, std::vector<TinyFree>> *g_tiny_free_p = nullptr;
#define g_tiny_free (*g_tiny_free_p)
// warm-up history: every heap request is served by the real allocator, so a process-wide one-time allocation the
// library makes there (a lazily built table, a static with a heap member) survives the wiping of the arena
static bool g_warmup = false;
void set_warmup(bool on) { g_warmup = on; }
static inline bool in_tiny_zone(uintptr_t a) { return g_tiny_lo && a >= g_tiny_lo && a < g_tiny_lo + TINY_BYTES; }
static uint64_t g_heap_seed = 0;
static uint64_t g_alloc_counter = 0;
static Ledger g_ledger;
static std::vector<Anomaly> *g_anomalies_p = nullptr;
#define g_anomalies (*g_anomalies_p)
static SeamStats g_stats;
static CrashReporter g_reporter = nullptr;

const std::vector<Anomaly> &anomalies() { return g_anomalies; }
const SeamStats &stats() { return g_stats; }
Ledger ledger_now() { return g_ledger; }
bool operator==(const Ledger &a, const Ledger &b) { return a.blocks == b.blocks && a.bytes == b.bytes && a.maps == b.maps && a.map_bytes == b.map_bytes; }
bool have_arena() { return kArena; }
void set_crash_reporter(CrashReporter r) { g_reporter = r; }

// When a defect makes TSan report thousands of races, producing each report dominates the run time; after the
// glue has seen enough of them the library is no longer un-ignored, so the remaining calls run at full speed.
volatile int g_tsan_flood = 0;
static __thread int t_lifted = 0;
static void preempt_arm(OpCtx *ctx);
static void preempt_disarm();
static void seam_yield(int site);
void lib_enter(OpCtx *ctx) { t_ctx = ctx; if (!g_tsan_flood) { tsan_ignore_end(); t_lifted = 1; } if (ctx && ctx->preempt_after && ctx->preempt_at == 0) preempt_arm(ctx); }
// every scheduling point the seams pass on behalf of the library goes through here
static void seam_yield(int site) {
	rt::sched_yield_point(site);
	OpCtx *c = t_ctx;
	if (c && c->preempt_after && c->preempt_at && !c->preempted && ++c->yields_seen == c->preempt_at) preempt_arm(c);
}
void lib_exit() { if (t_step_on) preempt_disarm(); if (t_lifted) { tsan_ignore_begin(); t_lifted = 0; } t_ctx = nullptr; }

static void anomaly(const char *cls, const std::string &sig) {
	int op = t_ctx ? t_ctx->op_index : -1;
	g_anomalies.push_back(Anomaly{cls, sig, op});
	rt::g_log.ev("anomaly", t_ctx ? t_ctx->task : 0, op, rt::fnv64(sig.data(), sig.size()));
}

void fill_noise(void *p, size_t n, uint64_t seed) {
	uint64_t x = seed * 0x9e3779b97f4a7c15ULL + 0x1234567;
	if (!x) x = 1;
	uint8_t *b = (uint8_t *)p;
	size_t i = 0;
	for (; i + 8 <= n; i += 8) {
		x ^= x >> 12; x ^= x << 25; x ^= x >> 27;
		uint64_t v = x * 0x2545F4914F6CDD1DULL;
		v |= 0x0101010101010101ULL; // no zero byte: "never zero"
		memcpy(b + i, &v, 8);
	}
	for (; i < n; ++i) { x ^= x >> 12; x ^= x << 25; x ^= x >> 27; b[i] = (uint8_t)(x >> 32) | 1; }
	g_stats.noise_bytes += n;
}

static const char *kind_name(int k) {
	switch (k) { case RQ_NEW: return "new"; case RQ_MEMALIGN: return "memalign"; case RQ_MMAP: return "mmap"; case RQ_MMAP_HUGE: return "mmap_huge"; }
	return "?";
}
static std::string owner_of(const Block &b) {
	char buf[160];
	snprintf(buf, sizeof buf, "%s.req%d.%s", b.op_name, b.req_ord, kind_name(b.kind));
	return buf;
}

// ------------------------------------------------------------------ block lookup
static Block *find_containing(uintptr_t a, bool *in_guard) {
	if (in_guard) *in_guard = false;
	auto it = g_blocks.upper_bound(a);
	if (it == g_blocks.begin()) return nullptr;
	--it;
	Block &b = it->second;
	if (b.arena) {
		uintptr_t lo = b.page_lo, hi = b.page_lo + b.npages * PG;
		if (a >= lo && a < hi) return &b;
		if (a >= hi && a < hi + PG) { if (in_guard) *in_guard = true; return &b; }
		return nullptr;
	}
	if (a >= b.user && a < b.user + (b.size ? b.size : 1)) return &b;
	return nullptr;
}

std::string describe_addr(const void *p) {
	uintptr_t a = (uintptr_t)p;
	if (a < 65536) return "null_page";
	if (a >= ((uintptr_t)1 << 47)) return "noncanonical";
	bool guard = false;
	Block *b = find_containing(a, &guard);
	if (!b) {
		if (in_tiny_zone(a)) return "tiny_zone_not_live";
		if (kArena && a >= g_arena && a < g_arena + ARENA_BYTES) return a >= g_arena + g_zone[1].first_page * PG ? "model_arena_unallocated" : "arena_unallocated";
		return "foreign";
	}
	std::string own = owner_of(*b);
	if (b->zone == 1) own = "model:" + own;
	if (guard) return "guard_after owner=" + own;
	if (b->state == ST_FREED) return "freed owner=" + own;
	if (a < b->user) return "slack_before owner=" + own;
	return "live owner=" + own;
}

std::vector<std::string> live_owners(int op_index) {
	InSeam g;
	std::vector<std::string> v;
	for (auto &kv : g_blocks) if (kv.second.state == ST_LIVE && kv.second.zone == 0 && (op_index < 0 || kv.second.op_index == op_index)) v.push_back(owner_of(kv.second));
	std::sort(v.begin(), v.end());
	v.erase(std::unique(v.begin(), v.end()), v.end());
	return v;
}

bool in_live_library_block(const void *p) {
	if (!g_ready) return false;
	Block *b = find_containing((uintptr_t)p, nullptr);
	return b && b->state == ST_LIVE;
}

bool addr_was_reused(const void *p) {
	Block *b = find_containing((uintptr_t)p, nullptr);
	return b && b->reused;
}

// ------------------------------------------------------------------ arena
static void arena_protect(uintptr_t lo, size_t npages, int prot) {
	if (mprotect((void *)lo, npages * PG, prot) != 0) { fprintf(stderr, "rxsim: arena mprotect failed: %s\n", strerror(errno)); abort(); }
}

static Block *arena_alloc(size_t size, size_t align, int kind, OpCtx *ctx, bool zeroed, int zone = 0) {
	Zone &Z = g_zone[zone];
	bool is_mmap = (kind == RQ_MMAP || kind == RQ_MMAP_HUGE);
	if (align < 16) align = 16;
	size_t span = is_mmap ? size : ((size + align - 1) / align) * align;
	size_t npages = (span + PG - 1) / PG;
	if (npages == 0) npages = 1;
	bool big = size >= BIG_BLOCK;
	bool want_reuse = (ctx->heap_policy & (big ? HP_REUSE_BIG : HP_REUSE_SMALL)) != 0;
	uintptr_t lo = 0;
	bool reused = false;
	auto key = std::make_pair(npages, (int)is_mmap + 2 * zone);
	if (zone == 1) want_reuse = true;
	if (want_reuse) {
		auto it = g_freelist.find(key);
		if (it != g_freelist.end() && !it->second.empty()) {
			lo = it->second.back(); it->second.pop_back();
			reused = true;
			g_blocks.erase(lo);
		}
	}
	if (!lo) {
		if (Z.bump + npages + 2 > Z.max_pages) return nullptr;
		lo = g_arena + (Z.first_page + Z.bump + 1) * PG; // one guard page before the very first block too
		Z.bump += npages + 1;
		if (Z.bump > Z.high) Z.high = Z.bump;
	}
	if (zone == 0) (big ? (reused ? g_stats.reuse_big : g_stats.fresh_big) : (reused ? g_stats.reuse_small : g_stats.fresh_small))++;
	arena_protect(lo, npages, PROT_READ | PROT_WRITE);
	Block b;
	b.arena = true; b.zone = zone; b.page_lo = lo; b.npages = npages; b.size = size; b.kind = kind; b.state = ST_LIVE; b.reused = reused;
	b.op_index = ctx->op_index; b.req_ord = ctx->requests; b.op_name = ctx->op_name; b.owner_class = ctx->owner_class; b.task = ctx->task;
	b.user = is_mmap ? lo : lo + npages * PG - span;
	b.prot.assign(npages, PROT_READ | PROT_WRITE);
	b.hprot.assign(npages, -1);
	uint64_t nseed = rt::mix64(zone == 1 ? ctx->noise_seed : g_heap_seed, ++g_alloc_counter);
	if (is_mmap || zeroed) {
		// the kernel hands out zero pages: a reused mapping was dropped with MADV_DONTNEED when it was unmapped
		// (arena_free), so it reads as zero again without touching it here
	} else {
		bool stale = reused && (ctx->heap_policy & HP_STALE);
		if (stale && zone == 1) stale = false;
		if (stale) ++g_stats.stale;
		else {
			size_t total = npages * PG;
			if (total <= ((size_t)512 << 20)) fill_noise((void *)lo, total, nseed);
			else { fill_noise((void *)lo, 1 << 20, nseed); fill_noise((void *)(lo + total - (1 << 20)), 1 << 20, nseed ^ 1); }
		}
		// canary in the slack between the end of the block and the guard page
		size_t slack = span - size;
		if (slack) memset((void *)(b.user + size), 0xA5, slack);
	}
	auto ins = g_blocks.emplace(lo, std::move(b));
	return &ins.first->second;
}

// mmap(addr, len, ..., MAP_FIXED): the kernel maps exactly there and silently replaces whatever was mapped. In the arena that
// is legal only over address space the caller had obtained and given back (freed blocks, e.g. a probe mapping); a live
// block in the range belongs to somebody - replacing it is reported by the caller of this function.
// Returns nullptr if a live block overlaps (*clobbered names its owner) or the range is not arena space handed out before.
static Block *arena_alloc_at(uintptr_t addr, size_t len, int kind, OpCtx *ctx, std::string *clobbered, Block **own_remap) {
	size_t npages = (len + PG - 1) / PG;
	uintptr_t lo = addr, hi = addr + npages * PG;
	if ((addr & (PG - 1)) || addr < g_arena || hi > g_arena + (g_zone[0].first_page + g_zone[0].bump + 1) * PG) return nullptr;
	std::vector<uintptr_t> drop;
	for (auto &kv : g_blocks) {
		Block &b = kv.second;
		if (!b.arena) continue;
		uintptr_t blo = b.page_lo, bhi = b.page_lo + b.npages * PG;
		if (bhi <= lo || blo >= hi) continue;
		if (b.state == ST_LIVE) {
			// a live mapping of ANOTHER thread in the range: that thread's memory would be replaced under it. A live
			// mapping the calling thread made itself is its own business (committing pages inside a reservation): the
			// request is then served as a protection change + zero fill of that part, no new block
			if (b.task != ctx->task && b.task != 0) { if (clobbered) *clobbered = owner_of(b); return nullptr; }
			if (lo >= blo && hi <= bhi) {
				madvise((void *)lo, hi - lo, MADV_DONTNEED);
				if (own_remap) *own_remap = &b;
				return nullptr;
			}
			if (clobbered) *clobbered = owner_of(b) + " (partly)";
			return nullptr;
		}
		drop.push_back(kv.first);
	}
	for (uintptr_t k : drop) {
		Block &b = g_blocks[k];
		auto it = g_freelist.find(std::make_pair(b.npages, (int)(b.kind == RQ_MMAP || b.kind == RQ_MMAP_HUGE) + 2 * b.zone));
		if (it != g_freelist.end()) it->second.erase(std::remove(it->second.begin(), it->second.end(), b.page_lo), it->second.end());
		g_blocks.erase(k);
	}
	madvise((void *)lo, npages * PG, MADV_DONTNEED);
	arena_protect(lo, npages, PROT_READ | PROT_WRITE);
	Block b;
	b.arena = true; b.zone = 0; b.page_lo = lo; b.npages = npages; b.size = len; b.kind = kind; b.state = ST_LIVE; b.reused = true;
	b.op_index = ctx->op_index; b.req_ord = ctx->requests; b.op_name = ctx->op_name; b.owner_class = ctx->owner_class; b.task = ctx->task;
	b.user = lo;
	b.prot.assign(npages, PROT_READ | PROT_WRITE);
	b.hprot.assign(npages, -1);
	auto ins = g_blocks.emplace(lo, std::move(b));
	return &ins.first->second;
}

static void arena_free(Block &b) {
	bool is_mmap = (b.kind == RQ_MMAP || b.kind == RQ_MMAP_HUGE);
	if (!is_mmap) {
		// restore access in case the harness had protected it, then check the slack canary
		arena_protect(b.page_lo, b.npages, PROT_READ | PROT_WRITE);
		size_t span = b.page_lo + b.npages * PG - b.user;
		for (size_t i = b.size; i < span; ++i)
			if (((uint8_t *)b.user)[i] != 0xA5) { anomaly("HEAP_OVERRUN", "slack_after owner=" + owner_of(b)); break; }
	}
	if (is_mmap || b.npages * PG >= DROP_ON_FREE) madvise((void *)b.page_lo, b.npages * PG, MADV_DONTNEED);
	arena_protect(b.page_lo, b.npages, PROT_NONE);
	b.state = ST_FREED;
	g_freelist[std::make_pair(b.npages, (int)is_mmap + 2 * b.zone)].push_back(b.page_lo);
}

// ------------------------------------------------------------------ tiny slab
// every tiny block is followed by a 16-byte red zone (0xA5), checked when the block is freed
static const size_t TINY_RED = 16;
static inline size_t tiny_class(size_t size) { return (((size ? size : 1) + 15) & ~(size_t)15) + TINY_RED; }
static void *tiny_alloc(size_t size, size_t align, OpCtx *ctx) {
	size_t cs = tiny_class(size);
	size_t al = align < 16 ? 16 : align;
	if (ctx->heap_policy & HP_REUSE_TINY) {
		auto it = g_tiny_free.find(std::make_pair(cs, al));
		if (it != g_tiny_free.end() && !it->second.empty()) {
			auto &v = it->second;
			size_t pick = v.size() - 1;
			for (size_t i = v.size(); i-- > 0;) if (v[i].op_name == ctx->op_name && v[i].req_ord == ctx->requests) { pick = i; break; }
			uintptr_t p = v[pick].p;
			v.erase(v.begin() + (long)pick);
			++g_stats.reuse_tiny;
			return (void *)p;
		}
	}
	size_t off = (g_tiny_bump + al - 1) & ~(al - 1);
	if (off + cs > TINY_BYTES) { fprintf(stderr, "rxsim: tiny zone exhausted\n"); abort(); }
	while (off + cs > g_tiny_commit) { arena_protect(g_tiny_lo + g_tiny_commit, TINY_STEP / PG, PROT_READ | PROT_WRITE); g_tiny_commit += TINY_STEP; }
	g_tiny_bump = off + cs;
	if (g_tiny_bump > g_tiny_high) g_tiny_high = g_tiny_bump;
	return (void *)(g_tiny_lo + off);
}
static void tiny_free(const Block &b) {
	size_t cs = tiny_class(b.size);
	for (size_t i = b.size; i < cs; ++i) if (((const uint8_t *)b.user)[i] != 0xA5) { anomaly("HEAP_OVERRUN", "red_zone_after owner=" + owner_of(b)); break; }
	memset((void *)b.user, 0xDD, cs);
	g_tiny_free[std::make_pair(cs, b.align)].push_back(TinyFree{b.user, b.op_name, b.req_ord});
}

// ------------------------------------------------------------------ request handling
static bool should_fail(OpCtx *ctx, int kind) {
	for (int f : ctx->faults)
		if (f == ctx->requests) { ++ctx->fired; ++ctx->fired_kind[kind]; ++g_stats.fired[kind]; return true; }
	return false;
}

// returns nullptr on (injected) failure
static void *lib_alloc(OpCtx *ctx, size_t size, size_t align, int kind) {
	++ctx->requests;
	++g_stats.requests[kind];
	bool fail = should_fail(ctx, kind);
	rt::g_log.ev("req", ctx->task, ctx->op_index, (uint64_t)kind, (uint64_t)size, (uint64_t)ctx->requests * 2 + (fail ? 1 : 0));
	void *res = nullptr;
	if (!fail) {
		if (kArena && size >= OBJ_BLOCK && !g_warmup) {
			Block *b = arena_alloc(size, align, kind, ctx, false);
			if (!b) { fprintf(stderr, "rxsim: arena exhausted\n"); abort(); }
			res = (void *)b->user;
		} else {
			void *p = nullptr;
			if (kArena && !g_warmup) p = tiny_alloc(size, align, ctx);
			else if (kind == RQ_MEMALIGN) { if (posix_memalign(&p, align < sizeof(void *) ? sizeof(void *) : align, size) != 0) p = nullptr; }
			else p = malloc(size ? size : 1);
			if (!p) { fprintf(stderr, "rxsim: real allocator failed\n"); abort(); }
			fill_noise(p, size, rt::mix64(g_heap_seed, ++g_alloc_counter));
			if (in_tiny_zone((uintptr_t)p)) memset((uint8_t *)p + size, 0xA5, tiny_class(size) - size);
			Block b;
			b.user = (uintptr_t)p; b.size = size; b.kind = kind; b.state = ST_LIVE; b.align = align < 16 ? 16 : align;
			b.op_index = ctx->op_index; b.req_ord = ctx->requests; b.op_name = ctx->op_name; b.owner_class = ctx->owner_class; b.task = ctx->task;
			g_blocks[(uintptr_t)p] = std::move(b);
			res = p;
		}
		++g_ledger.blocks; g_ledger.bytes += size;
	}
	seam_yield(size >= OBJ_BLOCK ? rt::SITE_ALLOC : rt::SITE_ALLOC_TINY);
	return res;
}

static void model_noise(OpCtx *ctx, void *p, size_t size) {
	if (p && size) fill_noise(p, size, rt::mix64(ctx->noise_seed, ++g_alloc_counter));
}

// allocation on behalf of a reference-model computation: guard-paged block in the model zone (object-level
// blocks) or the real allocator (tiny blocks), noise-filled, never logged, never faulted
static void *model_alloc(OpCtx *ctx, size_t size, size_t align, int kind) {
	if (kArena && size >= OBJ_BLOCK) {
		Block *b = arena_alloc(size, align, kind, ctx, false, 1);
		if (!b) { fprintf(stderr, "rxsim: model arena exhausted\n"); abort(); }
		return (void *)b->user;
	}
	void *p = nullptr;
	if (kind == RQ_MEMALIGN) { if (posix_memalign(&p, align < sizeof(void *) ? sizeof(void *) : align, size) != 0) p = nullptr; }
	else p = malloc(size ? size : 1);
	model_noise(ctx, p, size);
	return p;
}

// true if handled
static bool lib_free(void *p) {
	if (!p) return true;
	auto it = g_blocks.find((uintptr_t)p);
	Block *b = nullptr;
	if (it != g_blocks.end() && !it->second.arena) b = &it->second;
	else {
		Block *c = find_containing((uintptr_t)p, nullptr);
		if (c && c->arena && c->user == (uintptr_t)p) b = c;
		else if (c && c->arena) {
			anomaly("BAD_FREE", "interior_pointer " + describe_addr(p));
			return true;
		}
	}
	if (!b) return in_tiny_zone((uintptr_t)p); // a slab block of a finished run: nothing to give back
	if (b->kind == RQ_MMAP || b->kind == RQ_MMAP_HUGE) { anomaly("BAD_FREE", "free_of_mapping owner=" + owner_of(*b)); return true; }
	if (b->state == ST_FREED) { anomaly("DOUBLE_FREE", "owner=" + owner_of(*b)); return true; }
	if (b->arena && b->zone == 1) { arena_free(*b); return true; } // reference-model object: no ledger, no log
	OpCtx *ctx = t_ctx;
	if (ctx) ++ctx->frees;
	++g_stats.frees;
	rt::g_log.ev("free", ctx ? ctx->task : 0, ctx ? ctx->op_index : -1, (uint64_t)b->kind, (uint64_t)b->size);
	--g_ledger.blocks; g_ledger.bytes -= b->size;
	const bool was_tiny = b->size < OBJ_BLOCK;
	if (b->arena) arena_free(*b);
	else if (in_tiny_zone(b->user)) {
		tiny_free(*b);
		g_blocks.erase(b->user);
	} else {
		memset((void *)b->user, 0xDD, b->size);
		void *q = (void *)b->user;
		g_blocks.erase(b->user);
		free(q);
	}
	if (ctx && !ctx->model_mode) seam_yield(was_tiny ? rt::SITE_FREE_TINY : rt::SITE_FREE);
	return true;
}

// ------------------------------------------------------------------ run control
void process_init() {
	static bool done = false;
	if (done) return;
	done = true;
	++t_in_seam;
	g_blocks_p = new std::map<uintptr_t, Block>();
	g_freelist_p = new std::map<std::pair<size_t, int>, std::vector<uintptr_t>>();
	g_anomalies_p = new std::vector<Anomaly>();
	g_tiny_free_p = new std::map<std::pair<size_t, size_t>, std::vector<TinyFree>>();
	--t_in_seam;
	g_ready = true;
	if (kArena) {
		void *p = mmap(nullptr, ARENA_BYTES, PROT_NONE, MAP_PRIVATE | MAP_ANONYMOUS | MAP_NORESERVE, -1, 0);
		if (p == MAP_FAILED) { fprintf(stderr, "rxsim: cannot reserve arena: %s\n", strerror(errno)); abort(); }
		g_arena = (uintptr_t)p;
		size_t pages = ARENA_BYTES / PG;
		g_zone[0] = Zone{0, pages / 4 * 3 - TINY_BYTES / PG, 0, 0};
		g_zone[1] = Zone{pages / 4 * 3, pages / 4, 0, 0};
		g_tiny_lo = g_arena + (pages / 4 * 3 - TINY_BYTES / PG) * PG;
	}
}

static void wipe_run_zone() {
	for (auto it = g_blocks.begin(); it != g_blocks.end();) {
		if (it->second.arena && it->second.zone == 1) ++it; else it = g_blocks.erase(it);
	}
	for (auto it = g_freelist.begin(); it != g_freelist.end();) {
		if (it->first.second >= 2) ++it; else it = g_freelist.erase(it);
	}
	g_zone[0].bump = 0;
	g_tiny_free.clear();
	g_tiny_bump = 0;
}

void run_begin(uint64_t heap_seed) {
	InSeam g;
	g_heap_seed = heap_seed;
	g_alloc_counter = 0;
	g_ledger = Ledger();
	g_anomalies.clear();
	g_stats = SeamStats();
	wipe_run_zone();
}

void run_end() {
	InSeam g;
	// tiny / tsan blocks still live are leaked on purpose (they belong to a finished run and the ledger
	// has reported them); the arena is wiped.
	if (kArena && g_zone[0].high) {
		madvise((void *)g_arena, (g_zone[0].high + 2) * PG, MADV_DONTNEED);
		arena_protect(g_arena, g_zone[0].high + 2, PROT_NONE);
		g_zone[0].high = 0;
	}
	if (kArena && g_tiny_high) { madvise((void *)g_tiny_lo, (g_tiny_high + PG - 1) & ~(PG - 1), MADV_DONTNEED); g_tiny_high = 0; }
	wipe_run_zone();
}

void guard_range(void *p, size_t len, int prot) {
	InSeam g;
	uintptr_t a = (uintptr_t)p;
	Block *b = find_containing(a, nullptr);
	if (!b || !b->arena || b->state != ST_LIVE) return;
	uintptr_t lo = (a + PG - 1) & ~(PG - 1), hi = (a + len) & ~(PG - 1);
	uintptr_t bhi = b->page_lo + b->npages * PG;
	if (hi > bhi) hi = bhi;
	if (lo < b->page_lo) lo = b->page_lo;
	if (hi <= lo) return;
	arena_protect(lo, (hi - lo) / PG, prot);
	for (uintptr_t x = lo; x < hi; x += PG) b->hprot[(x - b->page_lo) / PG] = (int8_t)prot;
}

int maps_audit(int op_index) {
	if (!kArena) return 0;
	InSeam g;
	++g_stats.maps_audits;
	FILE *f = fopen("/proc/self/maps", "r");
	if (!f) return 0;
	struct Ent { uintptr_t lo, hi; int prot; };
	std::vector<Ent> ents;
	char line[512];
	while (fgets(line, sizeof line, f)) {
		unsigned long lo, hi; char perms[8];
		if (sscanf(line, "%lx-%lx %7s", &lo, &hi, perms) != 3) continue;
		if (hi <= g_arena || lo >= g_arena + ARENA_BYTES) continue;
		int pr = (perms[0] == 'r' ? PROT_READ : 0) | (perms[1] == 'w' ? PROT_WRITE : 0) | (perms[2] == 'x' ? PROT_EXEC : 0);
		ents.push_back(Ent{lo, hi, pr});
	}
	fclose(f);
	int bad = 0;
	auto kernel_prot = [&](uintptr_t a) -> int {
		for (auto &e : ents) if (a >= e.lo && a < e.hi) return e.prot;
		return -1;
	};
	for (auto &e : ents)
		if ((e.prot & PROT_WRITE) && (e.prot & PROT_EXEC)) {
			// rwx somewhere in the arena: find the owner
			Block *b = find_containing(e.lo, nullptr);
			if (b && (b->owner_class != OWN_VM_PLAIN)) {
				++bad;
				g_anomalies.push_back(Anomaly{"WX_KERNEL", std::string("maps rwx owner=") + owner_of(*b), op_index});
			}
		}
	for (auto &kv : g_blocks) {
		Block &b = kv.second;
		if (!b.arena) continue;
		for (size_t i = 0; i < b.npages; ++i) {
			int want = b.state == ST_FREED ? PROT_NONE : (b.hprot[i] >= 0 ? b.hprot[i] : b.prot[i]);
			int got = kernel_prot(b.page_lo + i * PG);
			if (got != want) {
				++bad;
				char buf[200];
				snprintf(buf, sizeof buf, "maps_mismatch owner=%s want=%d got=%d", owner_of(b).c_str(), want, got);
				g_anomalies.push_back(Anomaly{"PROT_MODEL_MISMATCH", buf, op_index});
				break;
			}
		}
	}
	return bad;
}

// ------------------------------------------------------------------ guard on the library's writable globals
static uintptr_t g_lib_base = 0, g_gdata_lo = 0, g_gdata_hi = 0, g_asm_lo = 0, g_asm_hi = 0;
static volatile int g_globals_armed = 0;
struct GWrite { int task; uintptr_t addr; int pc_class; };
static GWrite g_gw[512];
static volatile int g_ngw = 0;
static uintptr_t g_opened[128];
static volatile int g_nopened = 0;
static uint64_t g_gw_seen = 0;

static int gg_phdr_cb(struct dl_phdr_info *info, size_t, void *) {
	if (!info->dlpi_name || !strstr(info->dlpi_name, "librx.so")) return 0;
	g_lib_base = info->dlpi_addr;
	uintptr_t relro_hi = 0;
	for (int i = 0; i < info->dlpi_phnum; ++i)
		if (info->dlpi_phdr[i].p_type == PT_GNU_RELRO) relro_hi = info->dlpi_addr + info->dlpi_phdr[i].p_vaddr + info->dlpi_phdr[i].p_memsz;
	for (int i = 0; i < info->dlpi_phnum; ++i) {
		const ElfW(Phdr) &ph = info->dlpi_phdr[i];
		if (ph.p_type != PT_LOAD || !(ph.p_flags & PF_W)) continue;
		uintptr_t lo = info->dlpi_addr + ph.p_vaddr, hi = lo + ph.p_memsz;
		if (relro_hi > lo && relro_hi < hi) lo = relro_hi;
		lo = (lo + PG - 1) & ~(PG - 1);   // a page shared with read-only-after-relocation data stays as it is
		hi = (hi + PG - 1) & ~(PG - 1);
		if (hi > lo) { g_gdata_lo = lo; g_gdata_hi = hi; }
	}
	return 0;
}

void globals_guard_arm() {
	if (!kArena) return;
	if (!g_lib_base) {
		dl_iterate_phdr(gg_phdr_cb, nullptr);
		void *a = dlsym(RTLD_DEFAULT, "randomx_prefetch_scratchpad"), *b = dlsym(RTLD_DEFAULT, "randomx_reciprocal_fast");
		if (a && b) { g_asm_lo = (uintptr_t)a; g_asm_hi = (uintptr_t)b + 256; }
	}
	if (!g_gdata_lo) return;
	g_ngw = 0; g_nopened = 0;
	mprotect((void *)g_gdata_lo, g_gdata_hi - g_gdata_lo, PROT_READ);
	g_globals_armed = 1;
}
void globals_guard_rearm() {
	if (!g_globals_armed) return;
	for (int i = 0; i < g_nopened; ++i) mprotect((void *)g_opened[i], PG, PROT_READ);
	g_nopened = 0;
}
std::vector<GlobalWriteRace> globals_guard_disarm(uint64_t *writes_seen) {
	std::vector<GlobalWriteRace> out;
	if (writes_seen) *writes_seen = g_gw_seen;
	if (!g_globals_armed) return out;
	g_globals_armed = 0;
	mprotect((void *)g_gdata_lo, g_gdata_hi - g_gdata_lo, PROT_READ | PROT_WRITE);
	InSeam g;
	std::map<uintptr_t, std::pair<std::vector<int>, int>> by_addr;
	for (int i = 0; i < g_ngw; ++i) {
		auto &e = by_addr[g_gw[i].addr & ~(uintptr_t)7];
		if (std::find(e.first.begin(), e.first.end(), g_gw[i].task) == e.first.end()) e.first.push_back(g_gw[i].task);
		e.second = g_gw[i].pc_class;
	}
	for (auto &kv : by_addr) if (kv.second.first.size() >= 2) out.push_back(GlobalWriteRace{kv.first - g_lib_base, (int)kv.second.first.size(), kv.second.second});
	g_ngw = 0;
	return out;
}

// returns true if the fault was a guarded global write that has been recorded and opened (the instruction restarts)
static bool globals_guard_fault(uintptr_t addr, uintptr_t pc, bool is_write) {
	if (!g_globals_armed || !is_write || addr < g_gdata_lo || addr >= g_gdata_hi) return false;
	int cls = 0;
	if (pc >= g_asm_lo && pc < g_asm_hi) cls = 2;
	else { Block *b = find_containing(pc, nullptr); if (b && b->state == ST_LIVE && (b->kind == RQ_MMAP || b->kind == RQ_MMAP_HUGE)) cls = 1; }
	if (cls) {
		++g_gw_seen;
		int n = g_ngw;
		if (n < 512) { g_gw[n].task = rt::sched_current_task(); g_gw[n].addr = addr; g_gw[n].pc_class = cls; g_ngw = n + 1; }
	}
	uintptr_t page = addr & ~(PG - 1);
	mprotect((void *)page, PG, PROT_READ | PROT_WRITE);
	int k = g_nopened;
	if (k < 128) { g_opened[k] = page; g_nopened = k + 1; }
	return true;
}

// ------------------------------------------------------------------ instruction-level preemption
static uintptr_t g_text_lo = 0, g_text_hi = 0;
static int text_phdr_cb(struct dl_phdr_info *info, size_t, void *) {
	if (!info->dlpi_name || !strstr(info->dlpi_name, "librx.so")) return 0;
	for (int i = 0; i < info->dlpi_phnum; ++i) {
		const ElfW(Phdr) &ph = info->dlpi_phdr[i];
		if (ph.p_type == PT_LOAD && (ph.p_flags & PF_X)) { g_text_lo = info->dlpi_addr + ph.p_vaddr; g_text_hi = g_text_lo + ph.p_memsz; }
	}
	return 0;
}
static bool pc_is_library_code(uintptr_t pc) {
	if (pc >= g_text_lo && pc < g_text_hi) return true;
	if (kArena && pc >= g_arena && pc < g_arena + ARENA_BYTES) { Block *b = find_containing(pc, nullptr); return b && b->state == ST_LIVE && (b->kind == RQ_MMAP || b->kind == RQ_MMAP_HUGE); }
	return false;
}
static void trap_handler(int, siginfo_t *, void *uc_) {
	ucontext_t *uc = (ucontext_t *)uc_;
	if (!t_step_on || t_in_seam) { if (!t_step_on) uc->uc_mcontext.gregs[REG_EFL] &= ~(greg_t)0x100; return; }
	++g_stats.preempt_steps;
	uintptr_t pc = (uintptr_t)uc->uc_mcontext.gregs[REG_RIP];
	if (!pc_is_library_code(pc)) {
		// code outside the library (libc, libstdc++) is stepped through but not counted; a shot that spends too long there is dropped
		if (++t_step_foreign > 6000) { t_step_on = 0; t_step_left = 0; uc->uc_mcontext.gregs[REG_EFL] &= ~(greg_t)0x100; }
		return;
	}
	if (t_step_left > 1) { --t_step_left; return; }
	if (rt::sched_lock_depth() > 0) return;          // inside a lock region: switch at the first library instruction after it
	// here
	OpCtx *ctx = t_step_ctx;
	t_step_on = 0; t_step_left = 0;
	uc->uc_mcontext.gregs[REG_EFL] &= ~(greg_t)0x100;
	++t_in_seam;
	rt::g_log.ev("preempt", ctx ? ctx->task : 0, ctx ? ctx->op_index : -1, ctx ? ctx->preempt_after : 0);
	bool sw = rt::sched_yield_point_forced(rt::SITE_PREEMPT);
	--t_in_seam;
	if (sw) { ++g_stats.preempt_fired; if (ctx) ctx->preempted = true; }
}
static void preempt_arm(OpCtx *ctx) {
	if (!kArena || !rt::sched_in_phase()) return;
	if (!g_text_lo) dl_iterate_phdr(text_phdr_cb, nullptr);
	if (!g_text_lo) return;
	++g_stats.preempt_armed;
	t_step_ctx = ctx; t_step_left = ctx->preempt_after; t_step_on = 1; t_step_foreign = 0;
	if (t_in_seam == 0) tf_set(); // inside the seams the flag is raised when the thread goes back to library code (~InSeam)
}
static void preempt_disarm() { t_step_on = 0; t_step_left = 0; tf_clear(); }

// ------------------------------------------------------------------ crash capture
static char g_altstack[1 << 16];

static void crash_handler(int sig, siginfo_t *si, void *uc_) {
	if (sig == SIGSEGV && g_globals_armed) {
		ucontext_t *u = (ucontext_t *)uc_;
		if (globals_guard_fault((uintptr_t)si->si_addr, (uintptr_t)u->uc_mcontext.gregs[REG_RIP], ((unsigned long)u->uc_mcontext.gregs[REG_ERR] & 2) != 0)) return;
	}
	static volatile int entered = 0;
	if (entered) _exit(4);
	entered = 1;
	alarm(5);
	ucontext_t *uc = (ucontext_t *)uc_;
	char cls[64], sgn[400];
	const char *sn = sig == SIGSEGV ? "SEGV" : sig == SIGBUS ? "BUS" : sig == SIGFPE ? "FPE" : sig == SIGILL ? "ILL" : sig == SIGABRT ? "ABRT" : "SIG";
	snprintf(cls, sizeof cls, "CRASH_%s", sn);
	if (sig == SIGSEGV || sig == SIGBUS) {
		unsigned long err = (unsigned long)uc->uc_mcontext.gregs[REG_ERR];
		const char *acc = (err & 16) ? "exec" : (err & 2) ? "write" : "read";
		++t_in_seam;
		std::string d = describe_addr(si->si_addr);
		snprintf(sgn, sizeof sgn, "access=%s at=%s", acc, d.c_str());
	} else if (sig == SIGFPE) {
		snprintf(sgn, sizeof sgn, "fpe_code=%d", si->si_code);
	} else snprintf(sgn, sizeof sgn, "code=%d", si->si_code);
	if (g_reporter) g_reporter(cls, sgn);
	_exit(3);
}

static void terminate_handler() {
	const char *what = "unknown";
	static char buf[300];
	if (std::type_info *t = abi::__cxa_current_exception_type()) { snprintf(buf, sizeof buf, "uncaught=%s", t->name()); what = buf; }
	if (g_reporter) g_reporter("TERMINATE", what);
	_exit(3);
}

void install_crash_handlers() {
	stack_t ss; ss.ss_sp = g_altstack; ss.ss_size = sizeof g_altstack; ss.ss_flags = 0;
	sigaltstack(&ss, nullptr);
	struct sigaction sa; memset(&sa, 0, sizeof sa);
	sa.sa_sigaction = crash_handler; sa.sa_flags = SA_SIGINFO | SA_ONSTACK | SA_NODEFER;
	sigaction(SIGSEGV, &sa, nullptr); sigaction(SIGBUS, &sa, nullptr); sigaction(SIGFPE, &sa, nullptr);
	sigaction(SIGILL, &sa, nullptr); sigaction(SIGABRT, &sa, nullptr);
	struct sigaction st; memset(&st, 0, sizeof st);
	st.sa_sigaction = trap_handler; st.sa_flags = SA_SIGINFO | SA_RESTART;
	sigaction(SIGTRAP, &st, nullptr);
	std::set_terminate(terminate_handler);
}

// ------------------------------------------------------------------ signal-disposition snapshot
// hash over (handler, flags) of the signals a library could plausibly touch; SIGSEGV is left out while the globals
// guard may be re-arming it (it is ours throughout)
uint64_t signal_dispositions() {
	static const int sigs[] = {SIGILL, SIGFPE, SIGBUS, SIGSEGV, SIGABRT, SIGTRAP, SIGSYS, SIGUSR1, SIGUSR2, SIGALRM, SIGPIPE, SIGINT, SIGTERM, SIGHUP, SIGCHLD, SIGPROF, SIGVTALRM};
	uint64_t h = 0x516;
	for (int s : sigs) {
		struct sigaction sa; memset(&sa, 0, sizeof sa);
		if (sigaction(s, nullptr, &sa) != 0) continue;
		h = rt::mix64(h, (uint64_t)(uintptr_t)sa.sa_sigaction);
		h = rt::mix64(h, (uint64_t)(sa.sa_flags & (SA_SIGINFO | SA_ONSTACK | SA_NODEFER | SA_RESETHAND | SA_RESTART)) + ((uint64_t)s << 32));
	}
	return h;
}

// ------------------------------------------------------------------ entry points used by the wrappers
static void *seam_new(size_t n) {
	OpCtx *ctx = t_ctx;
	if (!ctx || t_in_seam) return malloc(n ? n : 1);
	InSeam g;
	if (ctx->model_mode) return model_alloc(ctx, n, 16, RQ_NEW);
	return lib_alloc(ctx, n, 16, RQ_NEW);
}
static void seam_delete(void *p) {
	if (!p) return;
	if (t_in_seam || !g_ready) { free(p); return; }
	InSeam g;
	if (!lib_free(p)) free(p);
}

} // namespace seam


// ------------------------------------------------------------------ interposed symbols
using namespace seam;

extern "C" int __wrap_posix_memalign(void **out, size_t align, size_t size) {
	OpCtx *ctx = t_ctx;
	if (!ctx || t_in_seam) return posix_memalign(out, align, size);
	InSeam g;
	if (ctx->model_mode) { void *p = model_alloc(ctx, size, align, RQ_MEMALIGN); if (!p) return ENOMEM; *out = p; return 0; }
	void *p = lib_alloc(ctx, size, align, RQ_MEMALIGN);
	if (!p) return ENOMEM;
	*out = p;
	return 0;
}

extern "C" void __wrap_free(void *p) {
	if (!p) return;
	if (t_in_seam || !g_ready) { free(p); return; }
	InSeam g;
	if (!lib_free(p)) free(p);
}

extern "C" void *__wrap_mmap(void *addr, size_t len, int prot, int flags, int fd, off_t off) {
	OpCtx *ctx = t_ctx;
	if (!ctx || t_in_seam) return mmap(addr, len, prot, flags, fd, off);
	InSeam g;
	int kind = (flags & MAP_HUGETLB) ? RQ_MMAP_HUGE : RQ_MMAP;
	int rflags = flags & ~(MAP_HUGETLB | MAP_POPULATE); // huge-page pool is a stub: served from ordinary pages
	if (ctx->model_mode) {
		if (!kArena || (fd >= 0 && !(flags & MAP_ANONYMOUS))) return mmap(addr, len, prot, rflags, fd, off); // views of an object keep their identity
		Block *mb = arena_alloc(len, PG, kind, ctx, true, 1);
		if (!mb) { fprintf(stderr, "rxsim: model arena exhausted\n"); abort(); }
		if (prot != (PROT_READ | PROT_WRITE)) arena_protect(mb->page_lo, mb->npages, prot);
		for (auto &x : mb->prot) x = (uint8_t)prot;
		return (void *)mb->user;
	}
	++ctx->requests;
	++g_stats.requests[kind];
	bool fail = should_fail(ctx, kind);
	rt::g_log.ev("req", ctx->task, ctx->op_index, (uint64_t)kind, (uint64_t)len, (uint64_t)ctx->requests * 2 + (fail ? 1 : 0));
	void *res = MAP_FAILED;
	if (fail) errno = ENOMEM;
	else {
		Block *b = nullptr;
		if (fd >= 0 && !(flags & MAP_ANONYMOUS)) {
			// a view of a file or shared-memory object (memfd, shm): the object's identity matters (two views alias the same
			// pages), so the real kernel maps it; the block is tracked for the ledger and the page-protection model
			void *p = mmap(addr, len, prot, flags, fd, off);
			if (p == MAP_FAILED) { seam_yield(rt::SITE_MMAP); return MAP_FAILED; }
			struct stat sb; uint64_t fid = 1;
			if (fstat(fd, &sb) == 0) fid = rt::mix64((uint64_t)sb.st_dev, (uint64_t)sb.st_ino) | 1;
			Block nb;
			nb.user = (uintptr_t)p; nb.size = len; nb.kind = kind; nb.npages = (len + PG - 1) / PG; nb.fileid = fid;
			nb.op_index = ctx->op_index; nb.req_ord = ctx->requests; nb.op_name = ctx->op_name; nb.owner_class = ctx->owner_class; nb.task = ctx->task;
			b = &(g_blocks[(uintptr_t)p] = std::move(nb));
			b->prot.assign(b->npages, 0); b->hprot.assign(b->npages, -1);
			// the same object writable through one live view and executable through another is W+X in all but the address
			if (b->owner_class != OWN_VM_PLAIN) {
				int all = prot;
				for (auto &kv : g_blocks) if (kv.second.fileid == fid && kv.second.state == ST_LIVE && &kv.second != b) for (uint8_t pp : kv.second.prot) all |= pp;
				if ((all & PROT_WRITE) && (all & PROT_EXEC) && !((prot & PROT_WRITE) && (prot & PROT_EXEC))) anomaly("WX", std::string("one object mapped writable and executable at the same time (aliased views) owner=") + owner_of(*b));
			}
		} else if (kArena && (flags & MAP_FIXED) && addr) {
			std::string clobbered; Block *own = nullptr;
			b = arena_alloc_at((uintptr_t)addr, len, kind, ctx, &clobbered, &own);
			if (!b && own) { // fixed mapping inside a live mapping of the same thread: protection change of that part
				uintptr_t hi2 = ((uintptr_t)addr + len + PG - 1) & ~(PG - 1);
				arena_protect((uintptr_t)addr, (hi2 - (uintptr_t)addr) / PG, prot);
				for (uintptr_t x = (uintptr_t)addr; x < hi2; x += PG) own->prot[(x - own->page_lo) / PG] = (uint8_t)prot;
				if ((prot & PROT_WRITE) && (prot & PROT_EXEC) && (own->owner_class != OWN_VM_PLAIN)) anomaly("WX", std::string("mmap rwx owner=") + owner_of(*own));
				seam_yield(rt::SITE_MMAP);
				return addr;
			}
			if (!b) {
				anomaly("MAP_FIXED_CLOBBER", clobbered.empty() ? std::string("mmap(MAP_FIXED) at an address the library did not own") : "mmap(MAP_FIXED) replaces a live mapping owner=" + clobbered);
				seam_yield(rt::SITE_MMAP);
				errno = ENOMEM; return MAP_FAILED;
			}
			if (prot != (PROT_READ | PROT_WRITE)) arena_protect(b->page_lo, b->npages, prot);
		} else if (kArena) {
			b = arena_alloc(len, PG, kind, ctx, true);
			if (!b) { fprintf(stderr, "rxsim: arena exhausted\n"); abort(); }
			if (prot != (PROT_READ | PROT_WRITE)) arena_protect(b->page_lo, b->npages, prot);
		} else {
			void *p = mmap(addr, len, prot, rflags, fd, off);
			if (p == MAP_FAILED) { fprintf(stderr, "rxsim: real mmap failed\n"); abort(); }
			Block nb;
			nb.user = (uintptr_t)p; nb.size = len; nb.kind = kind; nb.npages = (len + PG - 1) / PG;
			nb.op_index = ctx->op_index; nb.req_ord = ctx->requests; nb.op_name = ctx->op_name; nb.owner_class = ctx->owner_class; nb.task = ctx->task;
			b = &(g_blocks[(uintptr_t)p] = std::move(nb));
			b->prot.assign(b->npages, 0); b->hprot.assign(b->npages, -1);
		}
		for (auto &x : b->prot) x = (uint8_t)prot;
		if ((prot & PROT_WRITE) && (prot & PROT_EXEC)) {
			if (b->owner_class != OWN_VM_PLAIN) anomaly("WX", std::string("mmap rwx owner=") + owner_of(*b));
			else ++g_stats.rwx_plain;
		}
		++g_ledger.maps; g_ledger.map_bytes += b->npages * PG;
		res = (void *)b->user;
	}
	seam_yield(rt::SITE_MMAP);
	return res;
}

extern "C" int __wrap_munmap(void *addr, size_t len) {
	OpCtx *ctx = t_ctx;
	if (!ctx || t_in_seam) return munmap(addr, len);
	InSeam g;
	if (ctx->model_mode) {
		Block *mb = kArena ? find_containing((uintptr_t)addr, nullptr) : nullptr;
		if (mb && mb->arena && mb->zone == 1 && mb->state == ST_LIVE && mb->user == (uintptr_t)addr) { arena_free(*mb); return 0; }
		return munmap(addr, len);
	}
	++g_stats.munmaps;
	Block *b = find_containing((uintptr_t)addr, nullptr);
	rt::g_log.ev("munmap", ctx->task, ctx->op_index, (uint64_t)len, b ? 1 : 0);
	if (!b || !(b->kind == RQ_MMAP || b->kind == RQ_MMAP_HUGE)) {
		anomaly("BAD_MUNMAP", "not_a_library_mapping at=" + describe_addr(addr));
		errno = EINVAL; return -1;
	}
	if (b->state == ST_FREED) { anomaly("DOUBLE_MUNMAP", "owner=" + owner_of(*b)); errno = EINVAL; return -1; }
	if ((uintptr_t)addr != b->user) { anomaly("BAD_MUNMAP", "interior_address owner=" + owner_of(*b)); errno = EINVAL; return -1; }
	size_t pages = (len + PG - 1) / PG;
	if (pages != b->npages) {
		// partial (or oversized) unmap: the remainder stays mapped and shows up as a leak at quiescence
		char buf[200];
		snprintf(buf, sizeof buf, "length_mismatch owner=%s %s", owner_of(*b).c_str(), pages < b->npages ? "short" : "long");
		anomaly("BAD_MUNMAP", buf);
		if (pages < b->npages) {
			if (b->arena) arena_protect(b->page_lo, pages, PROT_NONE); else munmap(addr, pages * PG);
			g_ledger.map_bytes -= pages * PG;
			for (size_t i = 0; i < pages; ++i) b->prot[i] = 0;
			return 0;
		}
	}
	--g_ledger.maps; g_ledger.map_bytes -= b->npages * PG;
	++ctx->frees;
	if (b->arena) arena_free(*b);
	else { munmap(addr, b->npages * PG); g_blocks.erase(b->user); }
	seam_yield(rt::SITE_MUNMAP);
	return 0;
}

extern "C" int __wrap_mprotect(void *addr, size_t len, int prot) {
	OpCtx *ctx = t_ctx;
	if (!ctx || t_in_seam) return mprotect(addr, len, prot);
	InSeam g;
	if (ctx->model_mode) {
		int r = mprotect(addr, len, prot);
		Block *mb = kArena ? find_containing((uintptr_t)addr, nullptr) : nullptr;
		if (r == 0 && mb && mb->arena && mb->zone == 1) for (auto &x : mb->prot) x = (uint8_t)prot;
		return r;
	}
	++g_stats.mprotects;
	++ctx->mprotects;
	Block *b = find_containing((uintptr_t)addr, nullptr);
	bool refuse = false;
	for (int f : ctx->pfaults) if (f == ctx->mprotects) refuse = true;
	rt::g_log.ev("mprotect", ctx->task, ctx->op_index, (uint64_t)len, (uint64_t)prot, (b ? 1 : 0) + (refuse ? 2 : 0));
	if (refuse) {
		// injected refusal (what a kernel out of VMAs, an LSM or a seccomp filter does): nothing changes. A request
		// that asks for W+X is a violation whether or not it would have been granted.
		++ctx->pfired; ++g_stats.mprotect_refused;
		if (b && (prot & PROT_WRITE) && (prot & PROT_EXEC) && (b->owner_class != OWN_VM_PLAIN)) anomaly("WX", std::string("mprotect rwx owner=") + owner_of(*b));
		seam_yield(rt::SITE_MPROTECT);
		errno = ENOMEM; return -1;
	}
	if (!b || b->state != ST_LIVE || !(b->kind == RQ_MMAP || b->kind == RQ_MMAP_HUGE)) {
		anomaly("BAD_MPROTECT", "not_a_live_library_mapping at=" + describe_addr(addr));
		errno = ENOMEM; return -1;
	}
	uintptr_t base = b->arena ? b->page_lo : b->user;
	uintptr_t lo = (uintptr_t)addr, hi = lo + len;
	if ((lo & (PG - 1)) || lo < base) { anomaly("BAD_MPROTECT", "unaligned owner=" + owner_of(*b)); errno = EINVAL; return -1; }
	hi = (hi + PG - 1) & ~(PG - 1);
	if (hi > base + b->npages * PG) { anomaly("BAD_MPROTECT", "beyond_mapping owner=" + owner_of(*b)); hi = base + b->npages * PG; }
	int r = mprotect((void *)lo, hi - lo, prot);
	if (r != 0) return r;
	bool was_x = false, was_w = false;
	for (uintptr_t x = lo; x < hi; x += PG) {
		uint8_t &pp = b->prot[(x - base) / PG];
		was_x |= (pp & PROT_EXEC) != 0; was_w |= (pp & PROT_WRITE) != 0;
		pp = (uint8_t)prot;
	}
	if ((prot & PROT_WRITE) && (prot & PROT_EXEC)) {
		if (b->owner_class != OWN_VM_PLAIN) anomaly("WX", std::string("mprotect rwx owner=") + owner_of(*b));
		else ++g_stats.rwx_plain;
	} else if (((prot & PROT_EXEC) && was_w && !was_x) || ((prot & PROT_WRITE) && was_x && !was_w)) ++g_stats.rw_rx_transitions;
	seam_yield(rt::SITE_MPROTECT);
	return 0;
}

// ------------------------------------------------------------------ synchronisation the library may use
// The library has no lock today. If a change adds one (a mutex around a memo, std::call_once, a function-local static
// with a non-trivial initialiser), the simulated threads must not be parked inside the region (see rt.hpp). These
// wrappers only keep the per-thread depth; the real primitive does the work (in the tsan variant that is TSan's
// interceptor, so the happens-before edges the primitive creates are seen).
#include <pthread.h>
extern "C" int __cxa_guard_acquire(void *);
extern "C" void __cxa_guard_release(void *);
extern "C" void __cxa_guard_abort(void *);
extern "C" int __wrap_pthread_mutex_lock(pthread_mutex_t *m) { int r = pthread_mutex_lock(m); if (r == 0) rt::sched_lock_enter(); return r; }
extern "C" int __wrap_pthread_mutex_trylock(pthread_mutex_t *m) { int r = pthread_mutex_trylock(m); if (r == 0) rt::sched_lock_enter(); return r; }
extern "C" int __wrap_pthread_mutex_unlock(pthread_mutex_t *m) { rt::sched_lock_exit(); return pthread_mutex_unlock(m); }
extern "C" int __wrap_pthread_rwlock_rdlock(pthread_rwlock_t *m) { int r = pthread_rwlock_rdlock(m); if (r == 0) rt::sched_lock_enter(); return r; }
extern "C" int __wrap_pthread_rwlock_wrlock(pthread_rwlock_t *m) { int r = pthread_rwlock_wrlock(m); if (r == 0) rt::sched_lock_enter(); return r; }
extern "C" int __wrap_pthread_rwlock_unlock(pthread_rwlock_t *m) { rt::sched_lock_exit(); return pthread_rwlock_unlock(m); }
extern "C" int __wrap_pthread_spin_lock(pthread_spinlock_t *m) { int r = pthread_spin_lock(m); if (r == 0) rt::sched_lock_enter(); return r; }
extern "C" int __wrap_pthread_spin_unlock(pthread_spinlock_t *m) { rt::sched_lock_exit(); return pthread_spin_unlock(m); }
extern "C" int __wrap_pthread_once(pthread_once_t *o, void (*fn)(void)) { rt::sched_lock_enter(); int r = pthread_once(o, fn); rt::sched_lock_exit(); return r; }
extern "C" int __wrap___cxa_guard_acquire(void *g) { int r = __cxa_guard_acquire(g); if (r) rt::sched_lock_enter(); return r; }
extern "C" void __wrap___cxa_guard_release(void *g) { rt::sched_lock_exit(); __cxa_guard_release(g); }
extern "C" void __wrap___cxa_guard_abort(void *g) { rt::sched_lock_exit(); __cxa_guard_abort(g); }

// ------------------------------------------------------------------ signal dispositions (process-wide state)
#include <signal.h>
extern "C" int __wrap_sigaction(int sig, const struct sigaction *act, struct sigaction *old) {
	OpCtx *ctx = t_ctx;
	if (!ctx || t_in_seam || ctx->model_mode) return sigaction(sig, act, old);
	InSeam g;
	++ctx->sigactions; ++g_stats.sigactions;
	rt::g_log.ev("sigaction", ctx->task, ctx->op_index, (uint64_t)sig, act ? 1 : 0);
	int r = sigaction(sig, act, old);
	seam_yield(rt::SITE_SIGACTION);
	return r;
}
extern "C" sighandler_t __wrap_signal(int sig, sighandler_t h) {
	OpCtx *ctx = t_ctx;
	if (!ctx || t_in_seam || ctx->model_mode) return signal(sig, h);
	InSeam g;
	++ctx->sigactions; ++g_stats.sigactions;
	rt::g_log.ev("signal", ctx->task, ctx->op_index, (uint64_t)sig, 1);
	sighandler_t r = signal(sig, h);
	seam_yield(rt::SITE_SIGACTION);
	return r;
}

// ------------------------------------------------------------------ named / anonymous memory objects
#include <fcntl.h>
extern "C" int __wrap_shm_open(const char *name, int oflag, mode_t mode) {
	OpCtx *ctx = t_ctx;
	if (!ctx || t_in_seam || ctx->model_mode) return shm_open(name, oflag, mode);
	InSeam g;
	rt::g_log.ev("shm_open", ctx->task, ctx->op_index, rt::fnv64(name, strlen(name)), (uint64_t)oflag);
	int r = shm_open(name, oflag, mode);
	seam_yield(rt::SITE_MMAP);
	return r;
}
extern "C" int __wrap_shm_unlink(const char *name) {
	OpCtx *ctx = t_ctx;
	if (!ctx || t_in_seam || ctx->model_mode) return shm_unlink(name);
	InSeam g;
	rt::g_log.ev("shm_unlink", ctx->task, ctx->op_index, rt::fnv64(name, strlen(name)));
	int r = shm_unlink(name);
	seam_yield(rt::SITE_MUNMAP);
	return r;
}
extern "C" int __wrap_memfd_create(const char *name, unsigned int flags) {
	OpCtx *ctx = t_ctx;
	if (!ctx || t_in_seam || ctx->model_mode) return memfd_create(name, flags);
	InSeam g;
	rt::g_log.ev("memfd_create", ctx->task, ctx->op_index, (uint64_t)flags);
	int r = memfd_create(name, flags);
	seam_yield(rt::SITE_MMAP);
	return r;
}

// H1 hook target
extern "C" void randomx_verif_yield(int site) {
	OpCtx *c = t_ctx;
	if (!c || c->model_mode || t_in_seam) return;
	if (!rt::sched_in_phase()) return;   // nothing to schedule outside a concurrent phase
	// light-weight seam entry: these sites are passed millions of times (per Argon2 block, per interpreter iteration); the
	// TSan ignore bracket (a stack-depot lookup per call) is taken by the scheduler only when it actually switches
	if (t_step_on) tf_clear();
	++t_in_seam;
	seam_yield(site);
	--t_in_seam;
	if (t_step_on) tf_set();
}

// ------------------------------------------------------------------ global operator new/delete
void *operator new(size_t n) { void *p = seam_new(n); if (!p) throw std::bad_alloc(); return p; }
void *operator new[](size_t n) { void *p = seam_new(n); if (!p) throw std::bad_alloc(); return p; }
void *operator new(size_t n, const std::nothrow_t &) noexcept { return seam_new(n); }
void *operator new[](size_t n, const std::nothrow_t &) noexcept { return seam_new(n); }
void operator delete(void *p) noexcept { seam_delete(p); }
void operator delete[](void *p) noexcept { seam_delete(p); }
void operator delete(void *p, size_t) noexcept { seam_delete(p); }
void operator delete[](void *p, size_t) noexcept { seam_delete(p); }
void operator delete(void *p, const std::nothrow_t &) noexcept { seam_delete(p); }
void operator delete[](void *p, const std::nothrow_t &) noexcept { seam_delete(p); }
