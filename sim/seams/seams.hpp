// rxsim seams: simulated heap, virtual-memory layer, page-protection model, ledger, MXCSR trampoline,
// crash capture. The library reaches these through link-time interposition
// (-Wl,--wrap=posix_memalign,--wrap=free,--wrap=mmap,--wrap=munmap,--wrap=mprotect on librx.so and a
// replaced global operator new/delete in the executable).
#pragma once
#include <stdint.h>
#include <stddef.h>
#include <string>
#include <vector>

namespace seam {

enum ReqKind { RQ_NEW = 0, RQ_MEMALIGN = 1, RQ_MMAP = 2, RQ_MMAP_HUGE = 3, RQ_KINDS = 4 };
enum OwnerClass { OWN_NONE = 0, OWN_CACHE = 1, OWN_VM_SECURE = 2, OWN_VM_PLAIN = 3, OWN_DATASET = 4, OWN_OTHER = 5 };

// heap policy bits attached to an op
enum { HP_REUSE_BIG = 1, HP_REUSE_SMALL = 2, HP_STALE = 4, HP_REUSE_TINY = 8 };
static const size_t BIG_BLOCK = 64 * 1024;   // "big" vs "small" object-level blocks for the reuse policy
static const size_t OBJ_BLOCK = 1024;        // blocks >= this get their own pages (plain variant)

// Context of the API call in flight on the calling thread ("library scope").
struct OpCtx {
	int task = 0;
	int op_index = -1;
	const char *op_name = "";
	int owner_class = OWN_NONE;
	int heap_policy = 0;
	bool model_mode = false;     // model computation: real allocator + noise, nothing logged, no faults
	uint64_t noise_seed = 0;
	std::vector<int> faults;     // 1-based request ordinals that must fail
	std::vector<int> pfaults;    // 1-based mprotect ordinals that are refused (ENOMEM, protection unchanged)
	// outputs
	int requests = 0;            // allocation requests seen in this call
	int fired = 0;               // faults that actually fired
	int fired_kind[RQ_KINDS] = {0, 0, 0, 0};
	int frees = 0;
	int mprotects = 0;           // page-protection requests seen in this call
	int pfired = 0;              // refused ones
	int sigactions = 0;          // signal-disposition requests seen in this call
	uint32_t preempt_after = 0;  // >0: the calling thread is preempted after this many library instructions (plain variant) ...
	uint32_t preempt_at = 0;     // ... counted from the preempt_at-th scheduling point passed inside the call (0: from the start)
	uint32_t yields_seen = 0;
	bool preempted = false;      // ... and it happened (another thread ran in between)
};

extern volatile int g_tsan_flood; // set by the TSan glue after many reports: stop un-ignoring the library
void lib_enter(OpCtx *ctx);   // calling thread enters library scope
void lib_exit();

struct Ledger { uint64_t blocks = 0, bytes = 0, maps = 0, map_bytes = 0; };
Ledger ledger_now();          // live library-scope blocks / mappings
bool operator==(const Ledger &a, const Ledger &b);

struct Anomaly { std::string cls; std::string sig; int op_index; };
// anomalies recorded by the seams during the current run (W^X, bad munmap, slack overrun, foreign mprotect...)
const std::vector<Anomaly> &anomalies();

struct SeamStats {
	uint64_t requests[RQ_KINDS] = {0, 0, 0, 0};
	uint64_t fired[RQ_KINDS] = {0, 0, 0, 0};
	uint64_t frees = 0, munmaps = 0, mprotects = 0;
	uint64_t reuse_big = 0, reuse_small = 0, fresh_big = 0, fresh_small = 0, stale = 0, reuse_tiny = 0;
	uint64_t noise_bytes = 0;
	uint64_t rw_rx_transitions = 0;   // secure-mode style RW->RX and RX->RW transitions
	uint64_t rwx_plain = 0;           // RWX requests on non-secure VM buffers (allowed)
	uint64_t maps_audits = 0;
	uint64_t mprotect_refused = 0;    // injected page-protection failures
	uint64_t sigactions = 0;          // sigaction/signal calls made by the library
	uint64_t preempt_armed = 0, preempt_fired = 0, preempt_steps = 0; // instruction-level preemption: shots armed / that switched threads / single steps taken
};
const SeamStats &stats();

void process_init();                         // once per process: arena, signal handlers
void run_begin(uint64_t heap_seed);          // per simulated run
void run_end();
void set_warmup(bool on);                  // warm-up history: heap requests go to the real allocator (see seams.cpp)
bool have_arena();

// harness-side protection of a live library block (C08/C14 read-only guards). Page-granular: only pages
// fully inside [p, p+len) are affected. prot = PROT_* bits.
void guard_range(void *p, size_t len, int prot);
// owners of library-scope blocks/mappings still live (sorted, unique) -- for leak signatures
std::vector<std::string> live_owners(int op_index = -1);
// is the address inside a live library-scope block or mapping? (no allocation; callable from the TSan callback)
bool in_live_library_block(const void *p);
// block lookup for reporting
std::string describe_addr(const void *p);
// address relation probe for evidence: does `a` (new block) equal an address that an earlier block had?
bool addr_was_reused(const void *p);

// Guard on librx.so's writable globals during a concurrent phase (plain variant): the .data/.bss pages are made
// read-only; a write faults, is recorded if it comes from JIT-emitted or hand-written assembly code (which TSan cannot
// see and which cannot synchronise), the page is opened and the instruction restarts; pages are re-armed at every
// context switch. Two different tasks writing the same global from such code is a race.
void globals_guard_arm();
void globals_guard_rearm();
struct GlobalWriteRace { uintptr_t lib_offset; int tasks; int pc_class; };
std::vector<GlobalWriteRace> globals_guard_disarm(uint64_t *writes_seen);

// /proc/self/maps audit: kernel view of every tracked block must equal the model; returns number of
// mismatches (each recorded as an anomaly) -- plain variant only.
int maps_audit(int op_index);

// hash of the process's signal dispositions (process-wide state a library call must leave as it found it)
uint64_t signal_dispositions();

// MXCSR
static inline uint32_t get_mxcsr() { uint32_t v; __asm__ volatile("stmxcsr %0" : "=m"(v)); return v; }
static inline void set_mxcsr(uint32_t v) { __asm__ volatile("ldmxcsr %0" ::"m"(v)); }
// x87 control word: the other half of the x86-64 floating-point environment (fenv covers both)
static inline uint16_t get_x87cw() { uint16_t v; __asm__ volatile("fnstcw %0" : "=m"(v)); return v; }
static inline void set_x87cw(uint16_t v) { __asm__ volatile("fldcw %0" ::"m"(v)); }
// control, status and tag word of the x87 unit (FNSTENV image without the instruction/operand pointers); FNSTENV masks all
// exceptions as a side effect, so the image is loaded back at once
struct X87Env { uint16_t cw, sw, tw; };
static inline X87Env get_x87env() { uint32_t img[7]; __asm__ volatile("fnstenv %0\n\tfldenv %0" : "+m"(img)); X87Env e; e.cw = (uint16_t)img[0]; e.sw = (uint16_t)img[1]; e.tw = (uint16_t)img[2]; return e; }

// crash capture: the executor registers what to print if the process dies inside a run.
typedef void (*CrashReporter)(const char *cls, const char *sig);
void set_crash_reporter(CrashReporter r);
void install_crash_handlers();

// deterministic noise
void fill_noise(void *p, size_t n, uint64_t seed);

// TSan glue (no-ops in the plain variant)
void tsan_ignore_begin();
void tsan_ignore_end();

} // namespace seam
