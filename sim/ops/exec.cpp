// rxsim executor (see exec.hpp).
#include "exec.hpp"
#include "../model/model.hpp"
#include "randomx.h"
#include "dataset.hpp"
#include "virtual_machine.hpp"
#include <stdio.h>
#include <string.h>
#include <unistd.h>
#include <sys/mman.h>
#include <algorithm>
#include <set>
#ifdef RXSIM_TSAN
#include "../seams/tsan_glue.hpp"
#endif

namespace exec {

using namespace ops;

static const int MAXC = 16, MAXD = 8, MAXV = 32, MAXTASK = 16;
static const uint32_t F_LARGE = 1, F_FULL = 4, F_JIT = 8, F_SECURE = 16;

uint64_t dataset_items() { return randomx_dataset_item_count(); }
#ifndef RXSIM_CONFIG_NAME
#define RXSIM_CONFIG_NAME "shipped"
#endif
#ifdef RXSIM_TSAN
#define RXSIM_VARIANT_NAME "tsan"
#elif !defined(NDEBUG)
#define RXSIM_VARIANT_NAME "assert"
#else
#define RXSIM_VARIANT_NAME "plain"
#endif
const char *config_name() { return RXSIM_CONFIG_NAME; }
const char *variant_name() { return RXSIM_VARIANT_NAME; }
static bool small_config() { return dataset_items() <= (1u << 20); }

struct GuardRange { uint64_t lo, hi; int key; uint32_t cflags; };
struct DsGuard { bool on = false; std::vector<GuardRange> ranges; std::vector<uintptr_t> pages; };

struct RunState {
	const Plan *plan = nullptr;
	Annotated ann;
	Report *rep = nullptr;
	randomx_cache *C[MAXC];
	randomx_dataset *D[MAXD];
	randomx_vm *V[MAXV];
	uint32_t Vflags[MAXV];
	std::vector<std::vector<uint8_t>> keyb, inputb;
	std::vector<model::Digest> expd;
	std::vector<std::vector<int>> task_ops; // per phase run: op indices per task
	int cur_op[MAXTASK + 1];
	uint32_t thread_csr[MAXTASK + 1];
	DsGuard G[MAXD];
	bool in_concurrent = false;
	std::string plan_json;
	bool pfault_fired = false;      // an injected page-protection refusal has fired in this run
	bool vm_tainted[MAXV] = {false}; // a hash call on this VM ended in an exception (injected allocation failure): its later results are not constrained
	uint64_t sig0 = 0;              // signal dispositions at the start of the run
	bool cold = false;              // see ops::Plan::cold
	struct Deferred { int op; bool is_cache_check; uint64_t sum[2]; std::string vmf; bool env_nondefault; };
	std::vector<Deferred> deferred; // comparisons with the reference model postponed to the end of a cold history
};
static RunState *g_rs = nullptr;
static __thread seam::OpCtx *t_cur_ctx = nullptr; // context of the op in flight on this thread
static uint64_t g_run_index = 0;

static void viol(const std::string &cls, const std::string &sig, const std::string &detail, int op) {
	if (!g_rs) return;
	Violation v; v.cls = cls; v.sig = sig; v.detail = detail; v.op_index = op;
	// After an injected mprotect refusal the unchanged library may legitimately crash or fail (it ignores the result of
	// mprotect; no listed property covers that). Only what the properties state for every moment - no W+X page, MXCSR
	// restored by a single-call hash that returns - is still judged; everything else becomes a note.
	// a cold history triggers the library's one-time initialisations itself; what they allocate is not a leak of this history
	if (g_rs->cold && cls.compare(0, 5, "LEAK_") == 0) v.cls = "COLD_START_" + cls;
	if ((g_rs->pfault_fired || (t_cur_ctx && t_cur_ctx->pfired)) && cls != "MXCSR_CHANGED" && cls != "WX" && cls != "WX_KERNEL") v.cls = "AFTER_MPROTECT_FAULT_" + cls;
	g_rs->rep->violations.push_back(v);
	// TSan's choice of which racing pair to report depends on shadow-cell state left by earlier runs of the
	// same process, so race reports stay out of the run fingerprint (they are an oracle output, not an event)
	// (notes - what follows an injected mprotect refusal, what a cold history leaves allocated - are logged as notes: they are not results)
	const bool is_note = v.cls.compare(0, 11, "COLD_START_") == 0 || v.cls.compare(0, 20, "AFTER_MPROTECT_FAULT_") == 0;
	if (cls != "TSAN_RACE") rt::g_log.ev(is_note ? "note" : "violation", rt::sched_current_task(), op, rt::fnv64(cls.data(), cls.size()), rt::fnv64(sig.data(), sig.size()));
}

static void drain_tsan(int op) {
#ifdef RXSIM_TSAN
	for (int i = 0; i < tsanglue::count(); ++i) viol("TSAN_RACE", tsanglue::get(i).sig, "", op);
	tsanglue::clear();
#else
	(void)op;
#endif
}

void note_tsan_report(const std::string &sig, const std::string &detail) {
	if (!g_rs) return;
	int t = rt::sched_current_task();
	viol("TSAN_RACE", sig, detail, g_rs->cur_op[t <= MAXTASK ? t : 0]);
}

static std::string flagstr(uint32_t f) {
	std::string s;
	if (f & 4) s += "FULL_MEM|"; if (f & 8) s += "JIT|"; if (f & 16) s += "SECURE|"; if (f & 2) s += "HARD_AES|"; if (f & 1) s += "LARGE_PAGES|";
	if (f & 32) s += "ARGON2_SSSE3|"; if (f & 64) s += "ARGON2_AVX2|"; if (f & 128) s += "V2|";
	if (s.empty()) return "DEFAULT";
	s.pop_back();
	return s;
}

// ------------------------------------------------------------------ crash reporting
static void crash_reporter(const char *cls, const char *sig) {
	RunState *rs = g_rs;
	char head[1024];
	int t = rt::sched_current_task();
	int op = rs ? rs->cur_op[t <= MAXTASK ? t : 0] : -1;
	const char *kn = (rs && op >= 0 && op < (int)rs->plan->ops.size()) ? kind_name(rs->plan->ops[op].kind) : "none";
	if (model::g_in_model) { kn = "model_computation"; op = -1; }
	std::string cls2 = cls;
	if (rs && (rs->pfault_fired || seam::stats().mprotect_refused)) cls2 = "AFTER_MPROTECT_FAULT_" + cls2;
	std::string vmf;
	if (rs && op >= 0) {
		const Op &o = rs->plan->ops[op];
		if (o.v >= 0 && o.v < MAXV && o.kind != CREATE_VM) vmf = " vm=" + flagstr(rs->Vflags[o.v] & ~128u);
		else if (o.kind == CREATE_VM || o.kind == ALLOC_CACHE || o.kind == ALLOC_DATASET) vmf = " flags=" + flagstr(o.flags & ~128u);
	}
	std::string sched = "[";
	if (rs) for (size_t i = 0; i < rs->rep->recorded.size(); ++i) { char b[48]; snprintf(b, sizeof b, "%s[%llu,%d]", i ? "," : "", (unsigned long long)rs->rep->recorded[i].step, rs->rep->recorded[i].task); sched += b; }
	sched += "]";
	snprintf(head, sizeof head, "{\"type\":\"run\",\"run\":%llu,\"crashed\":true,\"violations\":[{\"cls\":\"%s\",\"sig\":\"op=%s%s %s\",\"detail\":\"\",\"op\":%d}],\"recorded\":",
	         (unsigned long long)g_run_index, cls2.c_str(), kn, vmf.c_str(), rt::json_escape(sig).c_str(), op);
	std::string line = head;
	line += sched;
	line += ",\"plan\":";
	line += rs ? rs->plan_json : "null";
	line += "}\n";
	size_t off = 0;
	while (off < line.size()) { ssize_t w = write(1, line.data() + off, line.size() - off); if (w <= 0) break; off += (size_t)w; }
}

void enable_shipped_full_mem_model() {
	model::Limits lim; lim.max_caches = 2; lim.max_datasets = 1; lim.allow_full_mem = true; lim.double_noise = false;
	model::configure(lim);
}

void process_setup(const char *) {
	seam::process_init();
	seam::install_crash_handlers();
	seam::set_crash_reporter(crash_reporter);
	model::Limits lim;
	if (small_config()) { lim.max_caches = 64; lim.max_datasets = 48; lim.allow_full_mem = true; lim.double_noise = true; }
	else { lim.max_caches = 2; lim.max_datasets = 0; lim.allow_full_mem = false; lim.double_noise = false; }
	model::configure(lim);
#ifdef RXSIM_TSAN
	tsanglue::init();
#endif
	seam::tsan_ignore_begin(); // the main thread is in "harness mode" except inside lib_enter/lib_exit
	seam::set_mxcsr(0x1F80);
}

// ------------------------------------------------------------------ edge buffers
// Caller-owned buffers handed to the library (hash input, hash output, key) are placed, in two ops out of three, so that
// they END at an inaccessible page, at whatever alignment their length gives them: a read or write one byte past the
// buffer faults, and nothing may be assumed about the alignment of caller memory. One slot per simulated thread.
struct EdgeSlot { uint8_t *base = nullptr; };
static EdgeSlot g_edge[MAXTASK + 1][2];
static uint8_t *edge_place(int task, int which, size_t len) { // returns a pointer p with p + len == start of a PROT_NONE page
	EdgeSlot &e = g_edge[task <= MAXTASK ? task : 0][which];
	const size_t PG = 4096, DATA = 2 * PG;
	if (!e.base) {
		void *m = mmap(nullptr, DATA + PG, PROT_READ | PROT_WRITE, MAP_PRIVATE | MAP_ANONYMOUS, -1, 0);
		if (m == MAP_FAILED) return nullptr;
		mprotect((uint8_t *)m + DATA, PG, PROT_NONE);
		e.base = (uint8_t *)m;
	}
	if (len > DATA) return nullptr;
	return e.base + DATA - len;
}

// ------------------------------------------------------------------ helpers
static void poison_item(uint64_t idx, uint8_t out[64]) {
	uint64_t x = idx * 0x9e3779b97f4a7c15ULL + 0x706f69736f6eULL;
	for (int i = 0; i < 8; ++i) { uint64_t w = rt::splitmix64(x) | 0x8000000000000001ULL; memcpy(out + 8 * i, &w, 8); }
}

struct ExpectedItems { // expected dataset content for (key, argon flags), filled lazily (small configurations)
	std::vector<uint8_t> data;
	std::vector<uint8_t> have;
};
static std::map<std::pair<ops::Blob, uint32_t>, ExpectedItems> g_expected_items;

// Expected value of a dataset item: randomx::initDatasetItem on a FRESH model cache, cross-checked against the
// independent spec reading on every 8th item and at the ends. The cache content does not depend on the
// JIT / LARGE_PAGES flags (same code path fills it), so the model cache is keyed by (key, Argon2 flags).
static bool expected_item(const Blob &key, uint32_t cflags, uint64_t idx, uint8_t out[64], std::string &why) {
	uint32_t af = cflags & 96u;
	std::string err;
	uint64_t N = dataset_items();
	ExpectedItems *E = nullptr;
	if (small_config()) {
		auto k = std::make_pair(key, af);
		auto it = g_expected_items.find(k);
		if (it == g_expected_items.end()) {
			if (g_expected_items.size() > 32) g_expected_items.clear();
			ExpectedItems e; e.data.resize(N * 64); e.have.assign(N, 0);
			it = g_expected_items.emplace(k, std::move(e)).first;
		}
		E = &it->second;
		if (E->have[idx]) { memcpy(out, &E->data[idx * 64], 64); return true; }
	}
	randomx_cache *mc = model::fresh_cache(key, af, err);
	if (!mc) { why = err; return false; }
	randomx::initDatasetItem(mc, out, idx);
	if ((idx & 7) == 0 || idx < 8 || idx + 8 >= N) {
		uint8_t b[64];
		model::spec_item(mc, idx, b);
		if (memcmp(out, b, 64) != 0) { why = "initDatasetItem != spec reading at item " + std::to_string(idx); return false; }
	}
	if (E) { memcpy(&E->data[idx * 64], out, 64); E->have[idx] = 1; }
	return true;
}

static int owner_for_vm(uint32_t flags) { return ((flags & F_JIT) && (flags & F_SECURE)) ? seam::OWN_VM_SECURE : seam::OWN_VM_PLAIN; }

// ------------------------------------------------------------------ dataset guard / check
static void ds_guard(RunState &rs, int i) {
	const Op &o = rs.plan->ops[i];
	DsGuard &g = rs.G[o.d];
	g = DsGuard(); g.on = true;
	// ranges of later INIT_DATASET ops on this dataset, up to the matching DS_CHECK
	for (size_t j = i + 1; j < rs.plan->ops.size(); ++j) {
		const Op &q = rs.plan->ops[j];
		if (q.kind == DS_CHECK && q.d == o.d) break;
		if (q.kind == INIT_DATASET && q.d == o.d) {
			// provenance (key, cflags) comes from the cache slot at that time; annotate() guarantees it is initialised.
			// The key is resolved at check time from the op's recorded provenance below.
			g.ranges.push_back(GuardRange{q.start, q.start + q.count, (int)j, 0});
		}
	}
	uint8_t *mem = (uint8_t *)randomx_get_dataset_memory(rs.D[o.d]);
	uint64_t N = dataset_items();
	const uintptr_t PG = 4096;
	std::set<uintptr_t> pages;
	for (auto &r : g.ranges) {
		uint64_t lo = r.lo, hi = r.hi > r.lo ? r.hi : r.lo + 1; // a count-0 call still names a position
		if (hi > N) hi = N;
		uintptr_t a = ((uintptr_t)mem + lo * 64) & ~(PG - 1), b = ((uintptr_t)mem + hi * 64 - 1) & ~(PG - 1);
		for (uintptr_t p = a - PG; p <= b + PG; p += PG) pages.insert(p);
	}
	uintptr_t mlo = (uintptr_t)mem, mhi = (uintptr_t)mem + N * 64;
	g.pages.clear();
	for (uintptr_t p : pages) if (p + PG > mlo && p < mhi) g.pages.push_back(p);
	if (seam::have_arena()) {
		// everything not prepared becomes inaccessible
		seam::guard_range(mem, N * 64, PROT_NONE);
		for (uintptr_t p : g.pages) seam::guard_range((void *)p, PG, PROT_READ | PROT_WRITE);
		// the first/last partially covered pages cannot be protected page-exactly; keep them prepared
		uintptr_t first = mlo & ~(PG - 1), last = (mhi - 1) & ~(PG - 1);
		// (a partially covered page was never protected; a fully covered one is re-opened here)
		if (std::find(g.pages.begin(), g.pages.end(), first) == g.pages.end()) { g.pages.push_back(first); seam::guard_range((void *)first, PG, PROT_READ | PROT_WRITE); }
		if (std::find(g.pages.begin(), g.pages.end(), last) == g.pages.end()) { g.pages.push_back(last); seam::guard_range((void *)last, PG, PROT_READ | PROT_WRITE); }
		std::sort(g.pages.begin(), g.pages.end());
		g.pages.erase(std::unique(g.pages.begin(), g.pages.end()), g.pages.end());
	}
	for (uintptr_t p : g.pages) {
		uintptr_t a = std::max(p, mlo), b = std::min(p + PG, mhi);
		for (uintptr_t x = a; x < b; x += 64) poison_item((x - mlo) / 64, (uint8_t *)x);
	}
	rs.rep->probes["ds_guard_pages"] += g.pages.size();
}

static void ds_check(RunState &rs, int i) {
	const Op &o = rs.plan->ops[i];
	DsGuard &g = rs.G[o.d];
	if (!g.on) return;
	uint8_t *mem = (uint8_t *)randomx_get_dataset_memory(rs.D[o.d]);
	uint64_t N = dataset_items();
	const uintptr_t PG = 4096;
	uintptr_t mlo = (uintptr_t)mem, mhi = mlo + N * 64;
	if (seam::have_arena()) seam::guard_range(mem, N * 64, PROT_READ | PROT_WRITE);
	// provenance per item: the LAST init op covering it (plan order == execution order inside one task; across
	// tasks ranges are disjoint)
	auto provenance = [&](uint64_t idx) -> int {
		int best = -1;
		for (auto &r : g.ranges) if (idx >= r.lo && idx < r.hi) best = std::max(best, r.key);
		return best;
	};
	uint64_t checked = 0, poison_ok = 0, skipped = 0;
	int reported = 0;
	const bool huge = g.pages.size() > 65536;
	for (uintptr_t p : g.pages) {
		uintptr_t a = std::max(p, mlo), b = std::min(p + PG, mhi);
		for (uintptr_t x = a; x < b && reported < 4; x += 64) {
			uint64_t idx = (x - mlo) / 64;
			if (huge) { // a whole shipped-size dataset: every item near a call boundary, 1 in 16 of the others
				bool near = false;
				for (auto &r : g.ranges) if ((idx + 64 >= r.lo && idx < r.lo + 64) || (idx + 64 >= r.hi && idx < r.hi + 64)) { near = true; break; }
				if (!near && (rt::mix64(idx, 0x5a) & 15) != 0) { ++skipped; continue; }
			}
			int src = provenance(idx);
			uint8_t want[64];
			if (src < 0) {
				poison_item(idx, want);
				if (memcmp((void *)x, want, 64) != 0) {
					++reported;
					// classify: what was written?
					std::string what = "garbage";
					viol("DATASET_WRITE_OUTSIDE", "item not requested was written (" + what + ")", "item=" + std::to_string(idx), i);
				} else ++poison_ok;
			} else {
				const Expect &e = rs.ann.expect[src];
				int keyidx = e.key; uint32_t cfl = e.cacheflags;
				std::string why;
				if (!expected_item(rs.plan->keys[keyidx], cfl, idx, want, why)) { viol("DATASET_MODEL_DISAGREE", why, "", i); ++reported; continue; }
				++checked;
				if (memcmp((void *)x, want, 64) != 0) {
					++reported;
					uint8_t pz[64]; poison_item(idx, pz);
					std::string what = memcmp((void *)x, pz, 64) == 0 ? "left_unwritten" : "wrong_value";
					viol("DATASET_ITEM_MISMATCH", "requested item " + what, "item=" + std::to_string(idx) + " init_op=" + std::to_string(src), i);
				}
			}
		}
	}
	rs.rep->probes["ds_items_checked"] += checked;
	if (skipped) rs.rep->probes["ds_items_sampled_out"] += skipped;
	rs.rep->probes["ds_poison_checked"] += poison_ok;
	g.on = false;
}

// ------------------------------------------------------------------ one op
static void exec_op(RunState &rs, int i) {
	const Plan &P = *rs.plan;
	const Op &o = P.ops[i];
	const Expect &e = rs.ann.expect[i];
	OpResult &res = rs.rep->results[i];
	int task = rt::sched_current_task();
	rs.cur_op[task <= MAXTASK ? task : 0] = i;
	rt::sched_yield_point(rt::SITE_OP_BEGIN);

	seam::OpCtx ctx;
	ctx.task = task; ctx.op_index = i; ctx.op_name = kind_name(o.kind); ctx.heap_policy = o.heap; ctx.faults = o.fault; ctx.pfaults = o.pfault;
	if (o.preempt && rs.in_concurrent) { ctx.preempt_after = o.preempt; ctx.preempt_at = o.preempt_at; }
	bool skipped = false;
	t_cur_ctx = &ctx;
	auto need = [&](bool ok) { if (!ok) skipped = true; return ok; };
	std::string fl;

	switch (o.kind) {
	case ALLOC_CACHE: case ALLOC_DATASET: case CREATE_VM: {
		void *obj = nullptr;
		if (o.kind == ALLOC_CACHE) ctx.owner_class = seam::OWN_CACHE;
		else if (o.kind == ALLOC_DATASET) ctx.owner_class = seam::OWN_DATASET;
		else ctx.owner_class = owner_for_vm(o.flags);
		randomx_cache *cc = nullptr; randomx_dataset *dd = nullptr;
		if (o.kind == CREATE_VM) {
			if (o.c >= 0) { cc = rs.C[o.c]; if (!need(cc != nullptr)) break; }
			if (o.d >= 0) { dd = rs.D[o.d]; if (!need(dd != nullptr)) break; }
		}
		seam::Ledger L0 = seam::ledger_now();
		seam::lib_enter(&ctx);
		if (o.kind == ALLOC_CACHE) obj = randomx_alloc_cache((randomx_flags)o.flags);
		else if (o.kind == ALLOC_DATASET) obj = randomx_alloc_dataset((randomx_flags)o.flags);
		else obj = randomx_create_vm((randomx_flags)o.flags, cc, dd);
		seam::lib_exit();
		res.executed = true; res.returned_null = obj == nullptr;
		res.requests = ctx.requests; res.fired = ctx.fired;
		std::string what = std::string(kind_name(o.kind)) + " flags=" + flagstr(o.flags & ~128u);
		if (ctx.fired > 0) {
			std::string fk;
			for (int k = 0; k < seam::RQ_KINDS; ++k) if (ctx.fired_kind[k]) fk += std::string(fk.empty() ? "" : "+") + (k == 0 ? "new" : k == 1 ? "memalign" : k == 2 ? "mmap" : "mmap_huge");
			if (obj) viol("FAULT_NOT_NULL", what + " failed_request=" + fk, "fault ordinals fired=" + std::to_string(ctx.fired), i);
			else {
				seam::Ledger L1 = seam::ledger_now();
				if (!(L0 == L1)) {
					std::string own; for (auto &s : seam::live_owners(i)) own += (own.empty() ? "" : ",") + s;
					viol("LEAK_ON_FAILURE", what + " failed_request=" + fk + " still_live=" + own,
					     "blocks " + std::to_string(L0.blocks) + "->" + std::to_string(L1.blocks) + " map_bytes " + std::to_string(L0.map_bytes) + "->" + std::to_string(L1.map_bytes), i);
				}
				rs.rep->probes["creating_call_failed_cleanly"]++;
			}
		} else if (!obj) viol("UNEXPECTED_NULL", what, "no fault fired", i);
		if (obj && o.expect_null) { // fault ordinal beyond the requests of this call: treat as create + immediate release
			rs.rep->probes["fault_beyond_requests"]++;
			seam::OpCtx c2; c2.task = task; c2.op_index = i; c2.op_name = "cleanup";
			seam::lib_enter(&c2);
			if (o.kind == ALLOC_CACHE) randomx_release_cache((randomx_cache *)obj);
			else if (o.kind == ALLOC_DATASET) randomx_release_dataset((randomx_dataset *)obj);
			else randomx_destroy_vm((randomx_vm *)obj);
			seam::lib_exit();
			obj = nullptr;
		}
		if (o.kind == ALLOC_CACHE) rs.C[o.c] = (randomx_cache *)obj;
		else if (o.kind == ALLOC_DATASET) rs.D[o.d] = (randomx_dataset *)obj;
		else { rs.V[o.v] = (randomx_vm *)obj; rs.Vflags[o.v] = o.flags; rs.vm_tainted[o.v] = false; }
		if (obj && o.kind == ALLOC_CACHE && seam::addr_was_reused(randomx_get_cache_memory((randomx_cache *)obj)) && !seam::addr_was_reused(obj)) rs.rep->probes["address_reuse_big_same_small_diff"]++;
		break;
	}
	case INIT_CACHE: {
		if (!need(rs.C[o.c] != nullptr)) break;
		ctx.owner_class = seam::OWN_CACHE;
		const uint8_t *kp = rs.keyb[o.key].data(); size_t kl = rs.keyb[o.key].size();
		static const uint8_t nokey = 0;
		if (kl == 0) kp = &nokey;
		else if (i % 3 != 0) { uint8_t *p = edge_place(task, 0, kl); if (p) { memcpy(p, kp, kl); kp = p; } }
		bool threw = false;
		seam::lib_enter(&ctx);
		if (o.fault.empty()) randomx_init_cache(rs.C[o.c], kp, kl);
		else { try { randomx_init_cache(rs.C[o.c], kp, kl); } catch (const std::exception &) { threw = true; } }
		seam::lib_exit();
		if (!o.fault.empty()) rs.rep->probes[threw ? "init_cache_threw" : "init_cache_fault_not_reached"]++;
		res.executed = true; res.requests = ctx.requests;
		break;
	}
	case RELEASE_CACHE: {
		if (!need(rs.C[o.c] != nullptr)) break;
		ctx.owner_class = seam::OWN_CACHE;
		seam::lib_enter(&ctx);
		randomx_release_cache(rs.C[o.c]);
		seam::lib_exit();
		rs.C[o.c] = nullptr; res.executed = true;
		break;
	}
	case RELEASE_DATASET: {
		if (!need(rs.D[o.d] != nullptr)) break;
		ctx.owner_class = seam::OWN_DATASET;
		seam::lib_enter(&ctx);
		randomx_release_dataset(rs.D[o.d]);
		seam::lib_exit();
		rs.D[o.d] = nullptr; res.executed = true;
		break;
	}
	case INIT_DATASET: {
		if (!need(rs.D[o.d] != nullptr && rs.C[o.c] != nullptr)) break;
		ctx.owner_class = seam::OWN_DATASET;
		seam::lib_enter(&ctx);
		randomx_init_dataset(rs.D[o.d], rs.C[o.c], (unsigned long)o.start, (unsigned long)o.count);
		seam::lib_exit();
		res.executed = true;
		break;
	}
	case DESTROY_VM: {
		if (!need(rs.V[o.v] != nullptr)) break;
		ctx.owner_class = owner_for_vm(rs.Vflags[o.v]);
		seam::lib_enter(&ctx);
		randomx_destroy_vm(rs.V[o.v]);
		seam::lib_exit();
		rs.V[o.v] = nullptr; res.executed = true;
		break;
	}
	case SET_CACHE: {
		if (!need(rs.V[o.v] != nullptr && rs.C[o.c] != nullptr)) break;
		ctx.owner_class = owner_for_vm(rs.Vflags[o.v]);
		seam::lib_enter(&ctx);
		randomx_vm_set_cache(rs.V[o.v], rs.C[o.c]);
		seam::lib_exit();
		res.executed = true;
		break;
	}
	case SET_DATASET: {
		if (!need(rs.V[o.v] != nullptr && rs.D[o.d] != nullptr)) break;
		ctx.owner_class = owner_for_vm(rs.Vflags[o.v]);
		seam::lib_enter(&ctx);
		randomx_vm_set_dataset(rs.V[o.v], rs.D[o.d]);
		seam::lib_exit();
		res.executed = true;
		break;
	}
	case SET_V2: case CLEAR_V2: {
		if (!need(rs.V[o.v] != nullptr)) break;
		ctx.owner_class = owner_for_vm(rs.Vflags[o.v]);
		seam::lib_enter(&ctx);
		if (o.kind == SET_V2) rs.V[o.v]->setFlagV2(); else rs.V[o.v]->clearFlagV2();
		seam::lib_exit();
		res.executed = true;
		break;
	}
	case HASH: case FIRST: case NEXT: case LAST: {
		if (!need(rs.V[o.v] != nullptr)) break;
		ctx.owner_class = owner_for_vm(rs.Vflags[o.v]);
		randomx_vm *vm = rs.V[o.v];
		const uint8_t *in = nullptr; size_t inlen = 0;
		static const uint8_t empty = 0;
		// an empty input is passed as a null pointer by every other op (randomx.h: input may be NULL if inputSize is 0)
		if (o.kind != LAST) { in = rs.inputb[o.input].empty() ? ((i & 1) ? nullptr : &empty) : rs.inputb[o.input].data(); inlen = rs.inputb[o.input].size(); }
		// the calling thread's MXCSR is whatever the previous library call on this thread left (the pipelined
		// interface is documented as free to change it), unless the op carries an explicit environment
		uint32_t &thread_csr = rs.thread_csr[task <= MAXTASK ? task : 0];
		uint32_t env = o.env >= 0 ? (uint32_t)o.env : thread_csr;
		memset(res.digest, 0xEE, 32);
		uint8_t *out = res.digest;
		uint8_t *edge_out = nullptr;
		if (i % 3 != 0) {
			if (in && inlen) { uint8_t *p = edge_place(task, 0, inlen); if (p) { memcpy(p, in, inlen); in = p; } }
			edge_out = edge_place(task, 1, 32);
			if (edge_out) { memset(edge_out - 32, 0xC9, 32); memset(edge_out, 0xEE, 32); out = edge_out; }
		}
		bool threw = false;
		// x87 control word derived from the environment: precision control 24/53/64 bit, any rounding control, exceptions masked
		static const uint16_t PC[4] = {0x0000, 0x0200, 0x0300, 0x0300};
		const uint16_t cw = o.env >= 0 ? (uint16_t)(0x007F | PC[(env >> 13) & 3] | (((env >> 8) & 3) << 10)) : (uint16_t)0x037F;
		seam::lib_enter(&ctx);
		__asm__ volatile("emms"); // a known register stack (all empty) on entry: reference-model computations run the same library and must not pre-dirty it
		seam::set_x87cw(cw);
		const seam::X87Env x87_before = seam::get_x87env();
		seam::set_mxcsr(env);
		if (o.fault.empty()) {
			if (o.kind == HASH) randomx_calculate_hash(vm, in, inlen, out);
			else if (o.kind == FIRST) randomx_calculate_hash_first(vm, in, inlen);
			else if (o.kind == NEXT) randomx_calculate_hash_next(vm, in, inlen, out);
			else randomx_calculate_hash_last(vm, out);
		} else {
			// an allocation request inside the call fails: the library lets the exception out of the C API; a caller
			// may catch it and go on using the VM. What the VM returns afterwards is not constrained by any property
			// (the VM is marked), but it must not crash, leak or leave W+X pages behind.
			try {
				if (o.kind == HASH) randomx_calculate_hash(vm, in, inlen, out);
				else if (o.kind == FIRST) randomx_calculate_hash_first(vm, in, inlen);
				else if (o.kind == NEXT) randomx_calculate_hash_next(vm, in, inlen, out);
				else randomx_calculate_hash_last(vm, out);
			} catch (const std::exception &) { threw = true; }
		}
		uint32_t after = seam::get_mxcsr();
		const seam::X87Env x87_after = seam::get_x87env();
		seam::set_mxcsr(0x1F80);
		if (x87_after.tw != x87_before.tw) __asm__ volatile("emms"); // the harness must not inherit a register stack left in MMX state
		seam::set_x87cw(0x037F);
		seam::lib_exit();
		if (o.kind == HASH && !threw && (x87_after.cw != x87_before.cw || x87_after.sw != x87_before.sw || x87_after.tw != x87_before.tw)) {
			char d[120]; snprintf(d, sizeof d, "cw 0x%04x->0x%04x sw 0x%04x->0x%04x tw 0x%04x->0x%04x", x87_before.cw, x87_after.cw, x87_before.sw, x87_after.sw, x87_before.tw, x87_after.tw);
			const char *what = x87_after.cw != x87_before.cw ? "control word" : x87_after.tw != x87_before.tw ? "tag word (register stack)" : "status word";
			viol("MXCSR_CHANGED", std::string("hash changed the x87 ") + what + " vm=" + flagstr(rs.Vflags[o.v] & ~128u), d, i);
		}
		if (edge_out) {
			memcpy(res.digest, edge_out, 32);
			for (int k = 1; k <= 32; ++k) if (edge_out[-k] != 0xC9) { viol("OUTPUT_UNDERRUN", std::string(kind_name(o.kind)) + " wrote in front of the 32-byte output buffer", "", i); break; }
			rs.rep->probes["edge_buffers"]++;
		}
		if (threw) { rs.vm_tainted[o.v] = true; rs.rep->probes["hash_call_threw"]++; }
		if (ctx.fired) rs.rep->probes["alloc_fault_in_hash_fired"]++;
		thread_csr = (after & 0xFFC0u) | 0x1F80u; // keep control bits (rounding, FTZ, DAZ) with all exceptions masked, drop sticky flags
		res.executed = true; res.mxcsr_before = env; res.mxcsr_after = after; res.requests = ctx.requests;
		std::string vmf = flagstr((rs.Vflags[o.v] & ~128u));
		const bool tainted = rs.vm_tainted[o.v];
		if (o.kind == HASH && after != env && !threw) {
			uint32_t diff = after ^ env;
			std::string bits;
			if (diff & 0x6000) bits += "rounding,"; if (diff & 0x8000) bits += "ftz,"; if (diff & 0x0040) bits += "daz,"; if (diff & 0x1F80) bits += "masks,"; if (diff & 0x003F) bits += "flags,";
			if (!bits.empty()) bits.pop_back();
			char d[96]; snprintf(d, sizeof d, "before=0x%04x after=0x%04x", env, after);
			viol("MXCSR_CHANGED", "hash vm=" + vmf + " changed=" + bits, d, i);
		}
		if (o.kind != FIRST) {
			res.has_digest = true;
			if (rs.cold) { if (e.has_digest && !tainted) rs.deferred.push_back(RunState::Deferred{i, false, {0, 0}, vmf, o.env >= 0 && env != 0x1F80}); }
			else if (e.has_digest && !tainted && memcmp(res.digest, rs.expd[i].b, 32) != 0) {
				char d[200]; snprintf(d, sizeof d, "got=%s want=%s env=0x%04x", rt::hex(res.digest, 8).c_str(), rt::hex(rs.expd[i].b, 8).c_str(), env);
				viol("DIGEST_MISMATCH", std::string(kind_name(o.kind)) + " vm=" + vmf + (e.v2 ? " v2" : " v1") + (o.env >= 0 && env != 0x1F80 ? " env=nondefault" : ""), d, i);
			}
			if (o.kind == LAST && (after & 0x6000)) rs.rep->probes["final_fprc_nonzero"]++;
		}
		break;
	}
	case COMMIT: {
		uint8_t got[32], want[32];
		const std::vector<uint8_t> &in = rs.inputb[o.input], &h = rs.keyb[o.key];
		static const uint8_t empty = 0;
		bool threw = false;
		memset(got, 0xEE, 32);
		seam::lib_enter(&ctx);
		try { randomx_calculate_commitment(in.empty() ? &empty : in.data(), in.size(), h.data(), got); } catch (const std::exception &) { threw = true; }
		seam::lib_exit();
		if (threw) { viol("COMMITMENT_THREW", "randomx_calculate_commitment did not deliver a commitment (exception out of the C API after an allocation failure)", "len=" + std::to_string(in.size()), i); res.executed = true; break; }
		std::vector<uint8_t> cat(in); cat.insert(cat.end(), h.begin(), h.end());
		model::blake2b_ref(want, 32, cat.data(), cat.size(), nullptr, 0);
		res.executed = true; memcpy(res.digest, got, 32); res.has_digest = true;
		if (memcmp(got, want, 32) != 0) viol("COMMITMENT_MISMATCH", "commitment != blake2b-256(input||hash)", "len=" + std::to_string(in.size()), i);
		break;
	}
	case DS_GUARD: if (need(rs.D[o.d] != nullptr)) { ds_guard(rs, i); res.executed = true; } break;
	case DS_CHECK: if (need(rs.D[o.d] != nullptr)) { ds_check(rs, i); res.executed = true; } break;
	case CACHE_CHECK: {
		if (!need(rs.C[o.c] != nullptr)) break;
		uint64_t got[2], want[2]; std::string err;
		model::checksum128(randomx_get_cache_memory(rs.C[o.c]), randomx::CacheSize, got);
		if (rs.cold) { if (e.key >= 0) rs.deferred.push_back(RunState::Deferred{i, true, {got[0], got[1]}, "", false}); res.executed = true; break; }
		if (e.key >= 0 && model::fresh_cache_checksum(P.keys[e.key], e.cacheflags, want, err)) {
			if (got[0] != want[0] || got[1] != want[1]) viol("CACHE_CHECKSUM", "cache memory differs from a fresh cache of the same key flags=" + flagstr(e.cacheflags), "", i);
			rs.rep->probes["cache_checksum_checked"]++;
		}
		res.executed = true;
		break;
	}
	case RO_GUARD: case RO_LIFT: {
		int prot = o.kind == RO_GUARD ? PROT_READ : (PROT_READ | PROT_WRITE);
		if (o.c >= 0 && rs.C[o.c]) {
			seam::guard_range(randomx_get_cache_memory(rs.C[o.c]), randomx::CacheSize, prot);
			// the cache object itself (SuperscalarHash programs, bookkeeping) is shared read-only state too
			seam::guard_range(rs.C[o.c], sizeof(randomx_cache), prot);
		}
		if (o.d >= 0 && rs.D[o.d]) seam::guard_range(randomx_get_dataset_memory(rs.D[o.d]), (size_t)dataset_items() * 64, prot);
		if (o.kind == RO_GUARD) rs.rep->probes["ro_guard"]++;
		res.executed = true;
		break;
	}
	case MAPS_AUDIT: seam::maps_audit(i); res.executed = true; break;
	default: break;
	}
	if (ctx.preempt_after) rs.rep->probes[ctx.preempted ? "preempted_inside_call" : "preempt_not_reached"]++;
	if (ctx.pfired) { rs.pfault_fired = true; rs.rep->probes["mprotect_refused"] += (uint64_t)ctx.pfired; }
	if (ctx.sigactions) {
		rs.rep->probes["sigaction_calls"] += (uint64_t)ctx.sigactions;
		// a call that runs alone must leave the process's signal dispositions as it found them; if this library does
		// not (sequentially), there is nothing to compare a concurrent phase with
		if (!rs.in_concurrent) { uint64_t now = seam::signal_dispositions(); if (now != rs.sig0) { rs.rep->probes["signal_dispositions_changed_sequentially"]++; rs.sig0 = now; } }
	}
	drain_tsan(i);
	t_cur_ctx = nullptr;
	if (skipped) rs.rep->probes["op_skipped_missing_object"]++;
	else ++rs.rep->ops_executed;
	rt::g_log.ev("op", task, i, (uint64_t)o.kind, (uint64_t)res.returned_null | ((uint64_t)skipped << 1), res.has_digest ? rt::fnv64(res.digest, 32) : 0);
	if (P.audit_every > 0 && !rs.in_concurrent && ((i + 1) % P.audit_every) == 0) seam::maps_audit(i);
}

static void task_body(int task, void *arg) {
	RunState &rs = *(RunState *)arg;
	seam::set_mxcsr(0x1F80);
	{ // calls any thread may make at any time: feature detection and the size query
		seam::OpCtx c; c.task = task; c.op_name = "get_flags";
		seam::lib_enter(&c);
		volatile unsigned f = (unsigned)randomx_get_flags(); volatile unsigned long n = randomx_dataset_item_count(); (void)f; (void)n;
		seam::lib_exit();
	}
	for (int i : rs.task_ops[task]) exec_op(rs, i);
}

// A plan generated for another configuration (smaller dataset) keeps its meaning on this one if ranges that sit
// near the END of the dataset it was written for are moved to the end of this dataset ("touching the last item"
// is a property of the plan; absolute indices are not). Ranges elsewhere keep their indices.
static Plan remap_for_this_config(const Plan &in) {
	uint64_t N = dataset_items();
	if (!in.items || in.items == N || N < in.items) return in;
	Plan p = in;
	const uint64_t window = 256;
	for (auto &o : p.ops)
		if (o.kind == INIT_DATASET && o.start + o.count + window >= in.items && o.start + window >= in.items) o.start += N - in.items;
	p.items = N;
	return p;
}

Report execute(const Plan &plan_in, const Options &opt) {
	Plan plan_remapped = remap_for_this_config(plan_in);
	const Plan &plan = plan_remapped;
	Report rep;
	g_run_index = opt.run_index;
	uint64_t N = dataset_items();
	RunState rs;
	rs.plan = &plan; rs.rep = &rep;
	memset(rs.C, 0, sizeof rs.C); memset(rs.D, 0, sizeof rs.D); memset(rs.V, 0, sizeof rs.V); memset(rs.Vflags, 0, sizeof rs.Vflags);
	memset(rs.cur_op, -1, sizeof rs.cur_op);
	for (auto &x : rs.thread_csr) x = 0x1F80u;
	rs.ann = annotate(plan, N);
	if (!rs.ann.valid) { rep.invalid = true; rep.invalid_reason = rs.ann.error; return rep; }
	rep.probes = rs.ann.probes;
	rep.results.resize(plan.ops.size());
	for (auto &k : plan.keys) rs.keyb.push_back(k.bytes());
	for (auto &k : plan.inputs) rs.inputb.push_back(k.bytes());
	// model digests, computed before the simulated history starts
	rs.expd.resize(plan.ops.size());
	// (not for the warm-up history: its calls are the first library calls of the process, and a reference-model call - made
	// under the default environment - must not come before them; nothing is judged there anyway)
	const bool is_warmup = opt.run_index == ~(uint64_t)0;
	if (is_warmup) for (auto &e : rs.ann.expect) e.has_digest = false;
	rs.cold = plan.cold;
	for (size_t i = 0; i < plan.ops.size() && !rs.cold; ++i) {
		const Expect &e = rs.ann.expect[i];
		if (!e.has_digest) continue;
		if (e.key < 0) { rep.invalid = true; rep.invalid_reason = "model: key of op " + std::to_string(i) + " unknown"; return rep; }
		std::string err; bool nd = false;
		if (!model::fresh_digest(plan.keys[e.key], plan.inputs[e.input], e.v2, e.vmflags, e.cacheflags, rs.expd[i], err, &nd)) { rep.invalid = true; rep.invalid_reason = err; return rep; }
		if (nd) {
			Violation v; v.cls = "MODEL_NOISE_DEPENDENCE"; v.sig = "fresh-object digest depends on heap contents vm=" + flagstr(e.vmflags) + " cache=" + flagstr(e.cacheflags); v.op_index = (int)i;
			rep.violations.push_back(v);
		}
	}
	rs.plan_json = plan_to_json(plan);
	g_rs = &rs;

	rt::g_log.reset(opt.trace);
	rt::sched_reset_stats();
	rt::SchedConfig sc;
	sc.replay = opt.replay || plan.replay; sc.script = plan.sched; sc.seed = rt::mix64(plan.seed, 0x5c4ed);
	sc.p_num = plan.p_num; sc.p_den = plan.p_den; sc.park_site = plan.park_site; sc.park_num = plan.park_num; sc.park_den = plan.park_den;
	rt::sched_configure(sc);
	// the warm-up history and a cold history are where the library's one-time, process-wide allocations happen: they are served by
	// the real allocator, because the simulated heap of a run is wiped when the run ends
	seam::set_warmup(opt.run_index == ~(uint64_t)0 || plan.cold);
	seam::run_begin(plan.heap_seed);
	rs.sig0 = seam::signal_dispositions();

	// group ops by phase
	size_t pos = 0;
	while (pos < plan.ops.size()) {
		int ph = plan.ops[pos].phase;
		size_t end = pos;
		std::set<int> tasks;
		while (end < plan.ops.size() && plan.ops[end].phase == ph) { tasks.insert(plan.ops[end].task); ++end; }
		if (tasks.size() <= 1) {
			rs.in_concurrent = false;
			for (size_t i = pos; i < end; ++i) exec_op(rs, (int)i);
		} else {
			rs.in_concurrent = true;
			rs.task_ops.assign(MAXTASK + 1, std::vector<int>());
			std::vector<int> ids;
			for (int t : tasks) { if (t < 1 || t > MAXTASK) { rep.invalid = true; rep.invalid_reason = "bad task id"; break; } ids.push_back(t); }
			if (rep.invalid) break;
			for (size_t i = pos; i < end; ++i) rs.task_ops[plan.ops[i].task].push_back((int)i);
			if ((int)ids.size() > rep.max_tasks) rep.max_tasks = (int)ids.size();
			rt::g_log.ev("phase", 0, -1, (uint64_t)ph, ids.size());
			seam::globals_guard_arm();
			rt::sched_set_switch_hook(seam::globals_guard_rearm);
			rt::sched_run_phase((int)ids.size(), ids.data(), task_body, &rs, rep.recorded);
			rt::sched_set_switch_hook(nullptr);
			{
				uint64_t seen = 0;
				for (auto &g : seam::globals_guard_disarm(&seen)) {
					char sg[200]; snprintf(sg, sizeof sg, "library global lib+0x%lx written from %s code by two or more tasks", (unsigned long)g.lib_offset, g.pc_class == 1 ? "JIT-emitted" : "static assembly");
					viol("ASM_GLOBAL_RACE", sg, "tasks=" + std::to_string(g.tasks), (int)pos);
				}
				rep.probes["asm_global_writes_seen"] = seen;
			}
			{
				// process-wide state the calls of the phase had to save and restore (signal dispositions): every call alone
				// leaves it unchanged (checked above for calls that ran alone), so after any interleaving it must be unchanged
				uint64_t now = seam::signal_dispositions();
				// (not in a cold history: a handler the library installs for good on first use would be installed inside the phase)
				if (now != rs.sig0 && !rs.cold) { viol("PROCESS_STATE_RACE", "signal dispositions after the concurrent phase differ from those before it (a save/install/restore sequence of the library was interleaved)", "", (int)pos); rs.sig0 = now; }
			}
			rs.in_concurrent = false;
		}
		pos = end;
	}

	// quiescence: release whatever the history left alive, then the ledger must be empty
	if (!rep.invalid) {
		seam::OpCtx ctx; ctx.op_index = (int)plan.ops.size(); ctx.op_name = "teardown";
		for (int d = 0; d < MAXD; ++d) if (rs.D[d] && rs.G[d].on && seam::have_arena()) seam::guard_range(randomx_get_dataset_memory(rs.D[d]), (size_t)N * 64, PROT_READ | PROT_WRITE);
		seam::lib_enter(&ctx);
		for (int v = 0; v < MAXV; ++v) if (rs.V[v]) { randomx_destroy_vm(rs.V[v]); rs.V[v] = nullptr; }
		for (int d = 0; d < MAXD; ++d) if (rs.D[d]) { randomx_release_dataset(rs.D[d]); rs.D[d] = nullptr; }
		for (int c = 0; c < MAXC; ++c) if (rs.C[c]) { randomx_release_cache(rs.C[c]); rs.C[c] = nullptr; }
		seam::lib_exit();
		seam::Ledger L = seam::ledger_now();
		if (L.blocks || L.maps || L.map_bytes || L.bytes) {
			std::string own; for (auto &s : seam::live_owners()) own += (own.empty() ? "" : ",") + s;
			viol("LEAK_AT_QUIESCENCE", "still_live=" + own, "blocks=" + std::to_string(L.blocks) + " bytes=" + std::to_string(L.bytes) + " maps=" + std::to_string(L.maps) + " map_bytes=" + std::to_string(L.map_bytes), (int)plan.ops.size());
		}
	}
	// cold history: the comparisons with the reference model, now that the history is over
	for (auto &df : rs.deferred) {
		const Expect &e = rs.ann.expect[df.op];
		if (e.key < 0) continue;
		std::string err;
		if (df.is_cache_check) {
			uint64_t want[2];
			if (model::fresh_cache_checksum(plan.keys[e.key], e.cacheflags, want, err)) {
				if (want[0] != df.sum[0] || want[1] != df.sum[1]) viol("CACHE_CHECKSUM", "cache memory differs from a fresh cache of the same key flags=" + flagstr(e.cacheflags), "", df.op);
				rep.probes["cache_checksum_checked"]++;
			}
		} else {
			model::Digest want; bool nd = false;
			if (!model::fresh_digest(plan.keys[e.key], plan.inputs[e.input], e.v2, e.vmflags, e.cacheflags, want, err, &nd)) continue;
			if (memcmp(rep.results[df.op].digest, want.b, 32) != 0)
				viol("DIGEST_MISMATCH", std::string(kind_name(plan.ops[df.op].kind)) + " vm=" + df.vmf + (e.v2 ? " v2" : " v1") + (df.env_nondefault ? " env=nondefault" : ""), "cold history", df.op);
		}
	}
	if (rs.cold) rep.probes["cold_history"]++;
	for (auto &a : seam::anomalies()) { Violation v; v.cls = a.cls; v.sig = a.sig; v.op_index = a.op_index; rep.violations.push_back(v); }
	drain_tsan((int)plan.ops.size());
#ifdef RXSIM_TSAN
	rep.probes["tsan_reports_seen"] = tsanglue::seen(); rep.probes["tsan_reports_rejected"] = tsanglue::rejected();
#endif
	rep.seams = seam::stats();
	rep.sched = rt::sched_stats();
	rep.fingerprint = rt::g_log.fp;
	rep.sem_fingerprint = rt::g_log.sem;
	rep.events = rt::g_log.count;
	if (opt.trace) rep.trace = rt::g_log.lines;
	seam::run_end();
	seam::set_warmup(false);
	g_rs = nullptr;
	return rep;
}

std::string report_to_json(const Report &r, const Plan &plan, bool with_plan) {
	std::string s;
	char b[640];
	snprintf(b, sizeof b, "{\"type\":\"run\",\"run\":%llu,\"seed\":%llu,\"fp\":\"%016llx\",\"sfp\":\"%016llx\",\"events\":%llu,\"ops\":%d,\"nops\":%zu,\"tasks\":%d,\"invalid\":%s",
	         (unsigned long long)g_run_index, (unsigned long long)plan.seed, (unsigned long long)r.fingerprint, (unsigned long long)r.sem_fingerprint, (unsigned long long)r.events, r.ops_executed, plan.ops.size(), r.max_tasks, r.invalid ? "true" : "false");
	s += b;
	if (r.invalid) s += ",\"invalid_reason\":\"" + rt::json_escape(r.invalid_reason) + "\"";
	snprintf(b, sizeof b, ",\"steps\":%llu,\"switches\":%llu,\"yields\":%llu,\"ilv\":\"%016llx\",\"shape\":\"%016llx\"", (unsigned long long)r.sched.steps, (unsigned long long)r.sched.switches,
	         (unsigned long long)r.sched.yields_total, (unsigned long long)r.sched.interleave_hash, (unsigned long long)plan_shape_hash(plan));
	s += b;
	const seam::SeamStats &st = r.seams;
	snprintf(b, sizeof b, ",\"req\":[%llu,%llu,%llu,%llu],\"fired\":[%llu,%llu,%llu,%llu]", (unsigned long long)st.requests[0], (unsigned long long)st.requests[1], (unsigned long long)st.requests[2], (unsigned long long)st.requests[3],
	         (unsigned long long)st.fired[0], (unsigned long long)st.fired[1], (unsigned long long)st.fired[2], (unsigned long long)st.fired[3]);
	s += b;
	snprintf(b, sizeof b, ",\"seam\":{\"frees\":%llu,\"munmaps\":%llu,\"mprotects\":%llu,\"reuse_big\":%llu,\"reuse_small\":%llu,\"reuse_tiny\":%llu,\"fresh_big\":%llu,\"fresh_small\":%llu,\"stale\":%llu,\"rw_rx\":%llu,\"rwx_plain\":%llu,\"audits\":%llu,\"mprotect_refused\":%llu,\"preempt_armed\":%llu,\"preempt_fired\":%llu,\"preempt_steps\":%llu}",
	         (unsigned long long)st.frees, (unsigned long long)st.munmaps, (unsigned long long)st.mprotects, (unsigned long long)st.reuse_big, (unsigned long long)st.reuse_small, (unsigned long long)st.reuse_tiny, (unsigned long long)st.fresh_big,
	         (unsigned long long)st.fresh_small, (unsigned long long)st.stale, (unsigned long long)st.rw_rx_transitions, (unsigned long long)st.rwx_plain, (unsigned long long)st.maps_audits, (unsigned long long)st.mprotect_refused, (unsigned long long)st.preempt_armed, (unsigned long long)st.preempt_fired, (unsigned long long)st.preempt_steps);
	s += b;
	s += ",\"probes\":{";
	bool first = true;
	for (auto &kv : r.probes) { snprintf(b, sizeof b, "%s\"%s\":%llu", first ? "" : ",", kv.first.c_str(), (unsigned long long)kv.second); s += b; first = false; }
	s += "},\"violations\":[";
	for (size_t i = 0; i < r.violations.size(); ++i) {
		const Violation &v = r.violations[i];
		const char *kn = (v.op_index >= 0 && v.op_index < (int)plan.ops.size()) ? kind_name(plan.ops[v.op_index].kind) : "end";
		s += std::string(i ? "," : "") + "{\"cls\":\"" + rt::json_escape(v.cls) + "\",\"sig\":\"" + rt::json_escape(v.sig) + "\",\"detail\":\"" + rt::json_escape(v.detail) + "\",\"op\":" + std::to_string(v.op_index) + ",\"opkind\":\"" + kn + "\"}";
	}
	s += "]";
	if (with_plan) {
		Plan p2 = plan; p2.sched = r.recorded; p2.replay = true;
		s += ",\"plan\":" + plan_to_json(p2);
	}
	if (!r.trace.empty()) { s += ",\"trace\":["; for (size_t i = 0; i < r.trace.size(); ++i) s += std::string(i ? "," : "") + "\"" + rt::json_escape(r.trace[i]) + "\""; s += "]"; }
	s += "}";
	return s;
}

} // namespace exec
