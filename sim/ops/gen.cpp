// rxsim plan generators. Every random choice comes from sub-streams of the run seed; the resulting
// plan is explicit (no PRNG is needed to replay it).
#include "gen.hpp"
#include "exec.hpp"
#include "../seams/seams.hpp"
#include "randomx.h"
#include <stdio.h>
#include <stdlib.h>
#include <unistd.h>
#include <sys/wait.h>
#include <algorithm>
#include <functional>
#include <set>
#include <map>

namespace gen {

using namespace ops;
static const uint32_t F_LARGE = 1, F_HARD = 2, F_FULL = 4, F_JIT = 8, F_SECURE = 16, F_SSSE3 = 32, F_AVX2 = 64, F_V2 = 128;

// key pool: equal lengths with different content, keys that differ in a single (first / last) byte, an empty key,
// a key longer than std::string's SSO buffer; index 6 is the 32-byte operand of the commitment op
struct KeySpec { uint32_t len; uint64_t seed; uint32_t tweak; };
static const KeySpec KEY_POOL[] = {{12, 1000, 0}, {12, 1001, 0}, {200, 1002, 0}, {12, 1000, 1}, {8, 1000, 0}, {0, 1005, 0}, {32, 1006, 0}, {200, 1002, 2}, {61, 1007, 0}};
static const int KEY_POOL_N = 9; // {8,1000} is a strict prefix of {12,1000}: bytes are positional in the seed
// An allocation failure INSIDE randomx_init_cache (the call throws; the caller retries) is expressible in the op language and
// the executor handles it, but it is not generated: no listed property covers it (C15 is about the three creating calls), and the
// unchanged library is not failure-atomic there - a failed first initialisation with the EMPTY key followed by a retry is taken
// for "same key, already initialised" and leaves a half-built cache (found while trying this out; see DESIGN §15.7).
static const bool kInitCacheFaults = false;
static const uint32_t INPUT_LENS[] = {76, 0, 1, 127, 128, 129, 1024, 33, 64, 200};

// ------------------------------------------------------------------ builder with a mirror of the contract model
struct Builder {
	Context &gc;
	rt::Rng rng;
	Plan plan;
	struct Cm { bool alive = false; uint32_t flags = 0; int key = -1; int id = 0, epoch = 0; } C[8];
	struct Dm { bool alive = false; bool complete = false; int key = -1; uint32_t cflags = 0; int id = 0; uint32_t flags = 0; } D[4];
	struct Vm { bool alive = false; uint32_t flags = 0; bool v2 = false; int c = -1, cid = 0, cepoch = 0, d = -1, did = 0; bool batch = false; int task = 0; int left = 0; } V[16];
	int idc = 0, idd = 0;
	int phase = 0, task = 0;
	int nkeys = 0, ninputs = 0;
	bool extra_keys = false;
	bool attach_env = false;
	bool env_masked_only = false;

	Builder(Context &g, uint64_t seed, const char *stream) : gc(g), rng(rt::substream(seed, stream)) {
		plan.property = g.property; plan.seed = seed; plan.items = g.N;
		rt::Rng hr = rt::substream(seed, "heap"); plan.heap_seed = hr.next() | 1;
		nkeys = g.small ? 9 : 6;
		// reduced configurations: half of the plans draw two further keys at random (key-specific code paths such as
		// a particular SuperscalarHash immediate are reached only by searching the key space; a cache costs ~2 ms there)
		extra_keys = g.small && rt::substream(seed, "keys").chance(1, 2); ninputs = 8;
		for (int i = 0; i < nkeys; ++i) plan.keys.push_back(Blob(KEY_POOL[i % KEY_POOL_N].len, KEY_POOL[i % KEY_POOL_N].seed, KEY_POOL[i % KEY_POOL_N].tweak));
		if (extra_keys) { rt::Rng kr = rt::substream(seed, "keys2"); for (int i = 0; i < 2; ++i) { plan.keys.push_back(Blob((uint32_t)kr.range(1, 40), kr.next() | 0x100000)); ++nkeys; } }
		for (int i = 0; i < ninputs; ++i) plan.inputs.push_back(Blob(INPUT_LENS[i % 10], (uint64_t)2000 + i));
	}
	Op &emit(int kind) { Op o; o.kind = kind; o.phase = phase; o.task = task; plan.ops.push_back(o); return plan.ops.back(); }
	int rnd_heap() { return (int)rng.below(16); }
	int64_t rnd_env() {
		uint32_t v = 0;
		v |= (uint32_t)rng.below(4) << 13;            // rounding control
		if (rng.chance(1, 2)) v |= 0x8000;            // FTZ
		if (rng.chance(1, 2)) v |= 0x0040;            // DAZ
		uint32_t masks = env_masked_only ? 0x3F : (rng.chance(1, 2) ? 0x3F : (uint32_t)rng.below(64));
		v |= masks << 7;
		v |= (uint32_t)rng.below(64);                 // sticky exception flags
		return (int64_t)v;
	}
	int free_c() { for (int i = 0; i < 8; ++i) if (!C[i].alive) return i; return -1; }
	int free_d() { for (int i = 0; i < 4; ++i) if (!D[i].alive) return i; return -1; }
	int free_v() { for (int i = 0; i < 16; ++i) if (!V[i].alive) return i; return -1; }
	int live_caches() { int n = 0; for (auto &c : C) n += c.alive; return n; }
	int live_vms() { int n = 0; for (auto &v : V) n += v.alive; return n; }
	std::vector<int> caches_ready() { std::vector<int> r; for (int i = 0; i < 8; ++i) if (C[i].alive && C[i].key >= 0) r.push_back(i); return r; }
	std::vector<int> datasets_complete() { std::vector<int> r; for (int i = 0; i < 4; ++i) if (D[i].alive && D[i].complete) r.push_back(i); return r; }

	void alloc_cache(int c, uint32_t flags, int heap) { Op &o = emit(ALLOC_CACHE); o.c = c; o.flags = flags; o.heap = heap; C[c] = Cm(); C[c].alive = true; C[c].flags = flags; C[c].id = ++idc; }
	void init_cache(int c, int key) { Op &o = emit(INIT_CACHE); o.c = c; o.key = key; if (C[c].key != key) { C[c].key = key; C[c].epoch++; } }
	void release_cache(int c) { Op &o = emit(RELEASE_CACHE); o.c = c; C[c].alive = false; }
	void alloc_dataset(int d, uint32_t flags, int heap) { Op &o = emit(ALLOC_DATASET); o.d = d; o.flags = flags; o.heap = heap; D[d] = Dm(); D[d].alive = true; D[d].id = ++idd; D[d].flags = flags; }
	void release_dataset(int d) { Op &o = emit(RELEASE_DATASET); o.d = d; D[d].alive = false; }
	void init_dataset(int d, int c, uint64_t start, uint64_t count) { Op &o = emit(INIT_DATASET); o.d = d; o.c = c; o.start = start; o.count = count; }
	// whole dataset through a random partition into calls (any residues mod 4, tiny calls included)
	void init_dataset_full(int d, int c) {
		uint64_t N = gc.N;
		std::vector<uint64_t> cuts = {0, N};
		int ncuts = (int)rng.below(5);
		for (int i = 0; i < ncuts; ++i) {
			uint64_t x = rng.below(N);
			if (rng.chance(1, 3)) x = std::min<uint64_t>(N - 1, rng.below(8));            // near the start
			else if (rng.chance(1, 3)) x = N - 1 - std::min<uint64_t>(N - 1, rng.below(8)); // near the end
			cuts.push_back(x);
		}
		std::sort(cuts.begin(), cuts.end()); cuts.erase(std::unique(cuts.begin(), cuts.end()), cuts.end());
		std::vector<std::pair<uint64_t, uint64_t>> calls;
		for (size_t i = 0; i + 1 < cuts.size(); ++i) calls.push_back({cuts[i], cuts[i + 1] - cuts[i]});
		for (size_t i = calls.size(); i > 1; --i) std::swap(calls[i - 1], calls[rng.below(i)]);
		for (auto &cl : calls) init_dataset(d, c, cl.first, cl.second);
		D[d].complete = true; D[d].key = C[c].key; D[d].cflags = C[c].flags;
	}
	void create_vm(int v, uint32_t flags, int c, int d, int heap) {
		Op &o = emit(CREATE_VM); o.v = v; o.flags = flags; o.c = c; o.d = d; o.heap = heap;
		V[v] = Vm(); V[v].alive = true; V[v].flags = flags & ~F_V2; V[v].v2 = (flags & F_V2) != 0; V[v].task = task;
		if (flags & F_FULL) { V[v].d = d; V[v].did = D[d].id; } else { V[v].c = c; V[v].cid = C[c].id; V[v].cepoch = C[c].epoch; }
	}
	void destroy_vm(int v) { Op &o = emit(DESTROY_VM); o.v = v; V[v].alive = false; }
	void set_cache(int v, int c) { Op &o = emit(SET_CACHE); o.v = v; o.c = c; V[v].c = c; V[v].cid = C[c].id; V[v].cepoch = C[c].epoch; }
	void set_dataset(int v, int d) { Op &o = emit(SET_DATASET); o.v = v; o.d = d; V[v].d = d; V[v].did = D[d].id; }
	void set_version(int v, bool v2) { Op &o = emit(v2 ? SET_V2 : CLEAR_V2); o.v = v; V[v].v2 = v2; }
	bool hashable(int v) {
		Vm &m = V[v];
		if (!m.alive) return false;
		if (m.flags & F_FULL) return m.d >= 0 && D[m.d].alive && D[m.d].id == m.did && D[m.d].complete;
		return m.c >= 0 && C[m.c].alive && C[m.c].id == m.cid && C[m.c].key >= 0 && C[m.c].epoch == m.cepoch;
	}
	// make v hashable by re-binding if possible
	bool make_hashable(int v) {
		if (hashable(v)) return true;
		Vm &m = V[v];
		if (!m.alive || m.batch) return false;
		if (m.flags & F_FULL) { auto ds = datasets_complete(); if (ds.empty()) return false; set_dataset(v, rng.pick(ds)); return true; }
		auto cs = caches_ready();
		if (cs.empty()) return false;
		int c = (m.c >= 0 && C[m.c].alive && C[m.c].key >= 0 && rng.chance(3, 4)) ? m.c : rng.pick(cs);
		set_cache(v, c);
		return true;
	}
	void hash(int v, int input) { Op &o = emit(HASH); o.v = v; o.input = input; if (attach_env) o.env = rnd_env(); V[v].batch = false; }
	void first(int v, int input) { Op &o = emit(FIRST); o.v = v; o.input = input; if (attach_env) o.env = rnd_env(); V[v].batch = true; }
	void next(int v, int input) { Op &o = emit(NEXT); o.v = v; o.input = input; if (attach_env) o.env = rnd_env(); }
	void last(int v) { Op &o = emit(LAST); o.v = v; if (attach_env) o.env = rnd_env(); V[v].batch = false; }
	int rnd_input() { return (int)rng.below(ninputs); }
	int key_limit = 0;
	int rnd_key() {
		if (extra_keys && rng.chance(1, 2)) return nkeys - 1 - (int)rng.below(2); // one of the two random keys
		return (int)rng.below(key_limit ? key_limit : nkeys);
	}
	int force_argon = -1; // >= 0: every cache of the plan uses this Argon2 implementation flag (threads then run the same code)
	uint32_t rnd_cache_flags() { uint32_t f = rng.pick(gc.cache_flagsets); if (force_argon >= 0) f = (f & ~(F_SSSE3 | F_AVX2)) | ((uint32_t)force_argon & gc.cpu_flags & (F_SSSE3 | F_AVX2)); return f; }
	uint32_t rnd_vm_flags_light() { uint32_t f = rng.pick(gc.vm_flagsets_light); if (rng.chance(1, 2)) f |= F_V2; return f; }
	uint32_t rnd_vm_flags_fast() { uint32_t f = rng.pick(gc.vm_flagsets_fast); if (rng.chance(1, 2)) f |= F_V2; return f; }
};

// ------------------------------------------------------------------ context
static void add_unique(std::vector<uint32_t> &v, uint32_t f) { if (std::find(v.begin(), v.end(), f) == v.end()) v.push_back(f); }

static std::string rc_key(int kind, uint32_t flags) { return std::string(kind_name(kind)) + ":" + std::to_string(flags & ~F_V2); }

// One fault-free dry run that issues every creating call x flag set once and records how many allocation
// requests each made (the fault enumeration needs the counts). One cache initialisation serves all of them.
static void prime_request_counts(Context &gc) {
	Plan p; p.property = "dry"; p.keys.push_back(Blob(12, 1000)); p.inputs.push_back(Blob(76, 2000));
	auto emit = [&](int k) -> Op & { Op o; o.kind = k; p.ops.push_back(o); return p.ops.back(); };
	std::vector<std::pair<size_t, std::string>> targets;
	{ Op &o = emit(ALLOC_CACHE); o.c = 0; o.flags = 0; }
	{ Op &o = emit(INIT_CACHE); o.c = 0; o.key = 0; }
	{ Op &o = emit(ALLOC_DATASET); o.d = 0; o.flags = 0; }
	for (uint32_t cf : gc.cache_flagsets) { Op &o = emit(ALLOC_CACHE); o.c = 1; o.flags = cf; targets.push_back({p.ops.size() - 1, rc_key(ALLOC_CACHE, cf)}); Op &r = emit(RELEASE_CACHE); r.c = 1; }
	for (uint32_t df : {0u, F_LARGE}) { Op &o = emit(ALLOC_DATASET); o.d = 1; o.flags = df; targets.push_back({p.ops.size() - 1, rc_key(ALLOC_DATASET, df)}); Op &r = emit(RELEASE_DATASET); r.d = 1; }
	std::vector<uint32_t> vmf = gc.vm_flagsets_light; vmf.insert(vmf.end(), gc.vm_flagsets_fast.begin(), gc.vm_flagsets_fast.end());
	for (uint32_t f : vmf) {
		Op &o = emit(CREATE_VM); o.v = 0; o.flags = f; o.c = (f & F_FULL) ? -1 : 0; o.d = (f & F_FULL) ? 0 : -1;
		targets.push_back({p.ops.size() - 1, rc_key(CREATE_VM, f)});
		Op &r = emit(DESTROY_VM); r.v = 0;
	}
	exec::Options opt; opt.run_index = ~(uint64_t)0; // like the warm-up history: real allocator, nothing judged
	exec::Report rep = exec::execute(p, opt);
	for (auto &t : targets) gc.request_counts[t.second] = (rep.invalid || t.first >= rep.results.size()) ? 0 : rep.results[t.first].requests;
}

// cold enumeration: the request counts come from a forked child, so that this process has made no library call yet
void prime_request_counts_in_child(Context &gc) {
	int fd[2];
	if (pipe(fd) != 0) return;
	pid_t pid = fork();
	if (pid == 0) {
		close(fd[0]);
		prime_request_counts(gc);
		std::string out;
		for (auto &kv : gc.request_counts) out += kv.first + "=" + std::to_string(kv.second) + "\n";
		size_t off = 0; while (off < out.size()) { ssize_t w = write(fd[1], out.data() + off, out.size() - off); if (w <= 0) break; off += (size_t)w; }
		_exit(0);
	}
	close(fd[1]);
	std::string in; char buf[4096]; ssize_t r;
	while ((r = read(fd[0], buf, sizeof buf)) > 0) in.append(buf, (size_t)r);
	close(fd[0]);
	int st = 0; waitpid(pid, &st, 0);
	size_t pos = 0;
	while (pos < in.size()) {
		size_t nl = in.find('\n', pos); if (nl == std::string::npos) break;
		std::string line = in.substr(pos, nl - pos); pos = nl + 1;
		size_t eq = line.rfind('=');
		if (eq != std::string::npos) gc.request_counts[line.substr(0, eq)] = atoi(line.c_str() + eq + 1);
	}
}

void init_context(Context &gc) {
	gc.N = exec::dataset_items();
	gc.small = gc.N <= (1u << 20);
	gc.cpu_flags = (uint32_t)randomx_get_flags();
	std::vector<uint32_t> argon = {0};
	if (gc.cpu_flags & F_SSSE3) argon.push_back(F_SSSE3);
	if (gc.cpu_flags & F_AVX2) argon.push_back(F_AVX2);
	for (uint32_t a : argon) for (uint32_t b : {0u, F_JIT, F_LARGE, F_JIT | F_LARGE}) add_unique(gc.cache_flagsets, a | b);
	bool aes = (gc.cpu_flags & F_HARD) != 0;
	for (uint32_t f = 0; f < 32; ++f) {
		if (f & F_FULL) continue;
		if ((f & F_SECURE) && !(f & F_JIT)) continue;
		if ((f & F_HARD) && !aes) continue;
		add_unique(gc.vm_flagsets_light, f);
		add_unique(gc.vm_flagsets_fast, f | F_FULL);
	}
}

// ------------------------------------------------------------------ C03 / C13 / C16 histories (single task)
struct HistoryOpts {
	int min_ops = 8, max_ops = 24;
	bool env = false;
	bool secure_only = false;
	bool allow_fast = true;
	bool faults = false;       // attach allocation faults to some creating calls
	bool checks = true;        // CACHE_CHECK after re-initialisation
	int audit_every = 0;
};

static void creating_fault(Builder &b, Op &o, int nreq) {
	// choose a fault ordinal inside the call (1..nreq), sometimes a pair
	if (nreq <= 0) nreq = 4;
	int k = 1 + (int)b.rng.below((uint64_t)nreq);
	o.fault.push_back(k);
	if (b.rng.chance(1, 4)) o.fault.push_back(k + 1);
	o.expect_null = true;
}

// Warm-up history, run once per process before anything is counted: creates, uses and destroys every VM class and
// cache/dataset flavour, so that any process-wide one-time initialisation inside the library (a lazily built
// table, a static with a heap member) has happened before the ledger of a counted run starts. Such a block is
// not acquired by any object and must not be reported as a leak of the run that happened to trigger it.
static void warmup_env_pass(Plan &p, uint64_t seed) { // C13: every hash call of the warm-up is entered under an environment drawn from the seed
	if (!seed) return;
	rt::Rng r(seed);
	for (auto &o : p.ops) if (o.kind == HASH || o.kind == FIRST || o.kind == NEXT || o.kind == LAST) {
		uint32_t v = (uint32_t)r.below(4) << 13;
		if (r.chance(1, 2)) v |= 0x8000;
		if (r.chance(1, 2)) v |= 0x0040;
#ifdef RXSIM_TSAN
		uint32_t masks = 0x3F;
#else
		uint32_t masks = r.chance(1, 2) ? 0x3F : (uint32_t)r.below(64);
#endif
		v |= masks << 7; v |= (uint32_t)r.below(64);
		o.env = (int64_t)v;
	}
}
static ops::Plan warmup_plan_base(Context &gc);
ops::Plan warmup_plan(Context &gc, uint64_t env_seed) { Plan p = warmup_plan_base(gc); warmup_env_pass(p, env_seed); return p; }
static ops::Plan warmup_plan_base(Context &gc) {
	Builder b(gc, 0x77a7, "warmup");
	b.plan.property = "warmup";
	b.alloc_cache(0, 0, 0); b.init_cache(0, 0);
	b.alloc_cache(1, F_JIT, 0); b.init_cache(1, 0);
	b.alloc_dataset(0, 0, 0);
	if (gc.small) b.init_dataset_full(0, 1); else { b.init_dataset(0, 1, 0, 64); b.init_dataset(0, 0, 64, 7); }
	{ Op &o = b.emit(ALLOC_DATASET); o.d = 1; o.flags = F_LARGE; b.D[1].alive = true; } b.release_dataset(1);
	for (uint32_t cf : gc.cache_flagsets) { if (cf == 0 || cf == F_JIT) continue; b.alloc_cache(2, cf, 0); if (gc.small) b.init_cache(2, 0); b.release_cache(2); }
	int n = 0;
	for (uint32_t f : gc.vm_flagsets_light) {
		b.create_vm(0, f, (f & F_JIT) ? 1 : 0, -1, 0);
		bool do_hash = gc.small || f == 0 || f == F_JIT || f == (F_JIT | F_SECURE) || f == F_HARD;
		if (do_hash) { b.hash(0, 0); b.set_version(0, true); b.first(0, 1); b.next(0, 2); b.last(0); }
		b.set_cache(0, (f & F_JIT) ? 0 : 1);
		b.destroy_vm(0); ++n;
	}
	for (uint32_t f : gc.vm_flagsets_fast) { b.create_vm(0, f, -1, 0, 0); if (gc.small) { b.hash(0, 0); b.set_version(0, true); b.hash(0, 1); } b.destroy_vm(0); }
	{ Op &o = b.emit(COMMIT); o.input = 0; o.key = 6; if ((int)b.plan.keys.size() <= 6 || b.plan.keys[6].len != 32) b.plan.ops.pop_back(); }
	return b.plan;
}

static int req_count(Context &gc, int kind, uint32_t flags) {
	if (gc.request_counts.empty() && gc.no_dry_run) return 0;
	if (gc.request_counts.empty()) prime_request_counts(gc);
	auto it = gc.request_counts.find(rc_key(kind, flags));
	return it != gc.request_counts.end() ? it->second : 0;
}

static void history(Builder &b, const HistoryOpts &ho) {
	Context &gc = b.gc;
	rt::Rng &rng = b.rng;
	b.attach_env = ho.env;
	b.plan.audit_every = ho.audit_every;
	auto vm_flags_light = [&]() { uint32_t f = b.rnd_vm_flags_light(); if (ho.secure_only) f |= F_JIT | F_SECURE; return f; };
	auto vm_flags_fast = [&]() { uint32_t f = b.rnd_vm_flags_fast(); if (ho.secure_only) f |= F_JIT | F_SECURE; return f; };
	int target = (int)rng.range(ho.min_ops, ho.max_ops);
	// opening: one cache, one key
	{
		int c = b.free_c();
		b.alloc_cache(c, b.rnd_cache_flags(), b.rnd_heap());
		b.init_cache(c, b.rnd_key());
	}
	bool want_fast = ho.allow_fast && gc.small && rng.chance(2, 5);
	if (want_fast && rng.chance(2, 3)) { // fast-mode objects from the start
		int d = b.free_d();
		b.alloc_dataset(d, rng.chance(1, 3) ? F_LARGE : 0, b.rnd_heap());
		b.init_dataset_full(d, 0);
		int v = b.free_v();
		b.create_vm(v, vm_flags_fast(), rng.chance(1, 3) ? 0 : -1, d, b.rnd_heap());
	}
	int guard = 0;
	while ((int)b.plan.ops.size() < target && ++guard < 400) {
		uint64_t r = rng.below(100);
		auto ready = b.caches_ready();
		std::vector<int> vms; for (int i = 0; i < 16; ++i) if (b.V[i].alive) vms.push_back(i);
		{ bool open_batch = false; for (int w : vms) open_batch |= b.V[w].batch; if (open_batch && rng.chance(1, 2)) r = 50; } // keep open batches moving
		if (r < 12) { // create a light VM
			int v = b.free_v(); if (v < 0 || ready.empty() || b.live_vms() >= 4) continue;
			int c = rng.pick(ready);
			uint32_t f = vm_flags_light();
			bool faulty = ho.faults && rng.chance(1, 3);
			if (faulty) {
				Op &o = b.emit(CREATE_VM); o.v = v; o.flags = f; o.c = c; o.heap = b.rnd_heap();
				creating_fault(b, o, req_count(gc, CREATE_VM, f));
			}
			b.create_vm(v, f, c, -1, b.rnd_heap());
		} else if (r < 18) { // dataset + fast VM (small configurations only)
			if (!want_fast || ready.empty()) continue;
			auto dc = b.datasets_complete();
			int d;
			if (dc.empty() || rng.chance(1, 4)) {
				d = b.free_d(); if (d < 0) continue;
				int live = 0; for (auto &x : b.D) live += x.alive; if (live >= 2) continue;
				uint32_t df = rng.chance(1, 3) ? F_LARGE : 0;
				bool faulty = ho.faults && rng.chance(1, 3);
				if (faulty) { Op &o = b.emit(ALLOC_DATASET); o.d = d; o.flags = df; creating_fault(b, o, req_count(gc, ALLOC_DATASET, df)); }
				b.alloc_dataset(d, df, b.rnd_heap());
				b.init_dataset_full(d, rng.pick(ready));
			} else d = rng.pick(dc);
			int v = b.free_v(); if (v < 0 || b.live_vms() >= 4) continue;
			b.create_vm(v, vm_flags_fast(), rng.chance(1, 3) ? rng.pick(ready) : -1, d, b.rnd_heap());
		} else if (r < 20) { // recycle a dataset: release it while fast VMs live, allocate a new one (the heap policy decides whether
			// the small dataset object and/or its memory come back at the old addresses), initialise, re-bind
			if (!want_fast || ready.empty()) continue;
			auto dc = b.datasets_complete();
			if (dc.empty()) continue;
			int d = rng.pick(dc);
			{ bool in_batch = false; for (int w : vms) if (b.V[w].batch && (b.V[w].flags & F_FULL) && b.V[w].d == d) in_batch = true; if (in_batch) continue; }
			uint32_t oldflags = b.D[d].flags; int oldkey = b.D[d].key;
			b.release_dataset(d);
			if (rng.chance(1, 3)) { // unrelated allocation in between
				int c3 = b.free_c();
				if (c3 >= 0 && b.live_caches() < 3) { b.alloc_cache(c3, b.rnd_cache_flags(), b.rnd_heap()); b.init_cache(c3, b.rnd_key()); ready = b.caches_ready(); }
			}
			int d2 = rng.chance(1, 2) ? d : b.free_d();
			if (d2 < 0 || b.D[d2].alive) d2 = b.free_d();
			if (d2 < 0) continue;
			int heap = rng.chance(1, 2) ? seam::HP_REUSE_TINY : b.rnd_heap();
			b.alloc_dataset(d2, rng.chance(2, 3) ? oldflags : (rng.chance(1, 2) ? F_LARGE : 0), heap);
			int src = rng.pick(ready);
			if (rng.chance(1, 2)) for (int c : ready) if (b.C[c].key == oldkey) src = c;
			b.init_dataset_full(d2, src);
			for (int w : vms) if (b.V[w].alive && (b.V[w].flags & F_FULL) && !b.V[w].batch && rng.chance(3, 4)) { b.set_dataset(w, d2); if (rng.chance(3, 4)) b.hash(w, b.rnd_input()); }
		} else if (r < 22) { // re-initialise a complete dataset in place from another key, or bind a fast VM to another dataset
			if (!want_fast || ready.empty()) continue;
			auto dc = b.datasets_complete();
			if (dc.empty()) continue;
			int d = rng.pick(dc);
			bool in_batch = false; for (int w : vms) if (b.V[w].batch && (b.V[w].flags & F_FULL) && b.V[w].d == d) in_batch = true;
			if (in_batch) continue;
			if (rng.chance(2, 3)) {
				b.init_dataset_full(d, rng.pick(ready));
				for (int w : vms) if (b.V[w].alive && (b.V[w].flags & F_FULL) && b.V[w].d == d && b.V[w].did == b.D[d].id && !b.V[w].batch) { // (bound to THIS dataset object, not to a released one that used the slot)
					if (rng.chance(1, 2)) b.set_dataset(w, d); // not required after an in-place re-initialisation; both orders are legal
					if (rng.chance(3, 4)) b.hash(w, b.rnd_input());
				}
			} else if (dc.size() > 1) {
				for (int w : vms) if (b.V[w].alive && (b.V[w].flags & F_FULL) && !b.V[w].batch && rng.chance(1, 2)) { b.set_dataset(w, rng.pick(dc)); b.hash(w, b.rnd_input()); }
			}
		} else if (r < 45) { // single hash
			if (vms.empty()) continue;
			int v = rng.pick(vms);
			if (b.V[v].batch) continue;
			if (!b.make_hashable(v)) continue;
			b.hash(v, b.rnd_input());
		} else if (r < 57) { // one step of a pipelined batch: open it, advance it or close it. Batches of different VMs
			// (and every other op on other objects) interleave freely; on the VM itself nothing else happens meanwhile
			if (vms.empty()) continue;
			int v = rng.pick(vms);
			// prefer a VM that is already inside a batch half of the time, so that batches get finished and overlap
			if (rng.chance(1, 2)) for (int w : vms) if (b.V[w].batch) { v = w; if (rng.chance(1, 2)) break; }
			if (!b.V[v].batch) {
				if (!b.make_hashable(v)) continue;
				b.first(v, b.rnd_input());
				b.V[v].left = (int)rng.range(0, 4);
			} else {
				if (!b.hashable(v)) { b.destroy_vm(v); continue; }  // its cache went away under it: destroying is all that is legal
				if (rng.chance(1, 14)) { b.destroy_vm(v); continue; } // destroy in the middle of a batch
				if (rng.chance(1, 10)) { // abandon the batch: a single-call hash or a fresh first() on the same VM
					if (rng.chance(1, 2)) b.hash(v, b.rnd_input()); else { b.first(v, b.rnd_input()); b.V[v].left = (int)rng.range(0, 3); }
					continue;
				}
				if (b.V[v].left > 0) { b.next(v, b.rnd_input()); b.V[v].left--; }
				else b.last(v);
			}
		} else if (r < 66) { // re-key a cache, then (maybe) check its memory
			if (ready.empty()) continue;
			int c = rng.pick(ready);
			bool in_batch = false; for (int w : vms) if (b.V[w].batch && b.V[w].c == c) in_batch = true;
			if (in_batch) continue;
			int k = b.rnd_key();
			if (kInitCacheFaults && k != b.C[c].key && rng.chance(1, 12)) {
				// the re-initialisation fails part-way (an allocation request inside it is refused); the caller catches the
				// exception and repeats the call with the same key
				Op &o = b.emit(INIT_CACHE); o.c = c; o.key = k; o.fault.push_back(1 + (int)rng.below(9000));
				b.C[c].key = -2; b.C[c].epoch++;
			}
			b.init_cache(c, k);
			if (ho.checks && rng.chance(1, 2)) { Op &o = b.emit(CACHE_CHECK); o.c = c; }
		} else if (r < 72) { // redundant init with the same key
			if (ready.empty()) continue;
			int c = rng.pick(ready);
			b.init_cache(c, b.C[c].key);
		} else if (r < 80) { // recycle: release a cache while VMs live, allocate a new one (heap policy decides addresses)
			if (ready.empty()) continue;
			int c = rng.pick(ready);
			{ bool in_batch = false; for (int w : vms) if (b.V[w].batch && !(b.V[w].flags & F_FULL) && b.V[w].c == c) in_batch = true; if (in_batch && rng.chance(7, 8)) continue; }
			int oldkey = b.C[c].key; uint32_t oldflags = b.C[c].flags;
			b.release_cache(c);
			if (rng.chance(1, 3) && !ready.empty()) { // unrelated allocation in between
				int c3 = b.free_c();
				if (c3 >= 0 && b.live_caches() < 3) { b.alloc_cache(c3, b.rnd_cache_flags(), b.rnd_heap()); b.init_cache(c3, b.rnd_key()); }
			}
			int c2 = rng.chance(1, 2) ? c : b.free_c();
			if (c2 < 0 || b.C[c2].alive) c2 = b.free_c();
			if (c2 < 0) continue;
			int heap = rng.chance(1, 2) ? seam::HP_REUSE_BIG : b.rnd_heap();
			if (rng.chance(1, 4)) heap |= seam::HP_STALE;
			b.alloc_cache(c2, rng.chance(2, 3) ? oldflags : b.rnd_cache_flags(), heap);
			b.init_cache(c2, rng.chance(1, 2) ? oldkey : b.rnd_key());
			for (int w : vms) if (b.V[w].alive && !(b.V[w].flags & F_FULL) && !b.V[w].batch && rng.chance(3, 4)) { b.set_cache(w, c2); if (rng.chance(3, 4)) b.hash(w, b.rnd_input()); }
		} else if (r < 84) { // second cache (maybe same key as another one)
			int c = b.free_c(); if (c < 0 || b.live_caches() >= 3) continue;
			bool faulty = ho.faults && rng.chance(1, 3);
			uint32_t cf = b.rnd_cache_flags();
			if (faulty) { Op &o = b.emit(ALLOC_CACHE); o.c = c; o.flags = cf; creating_fault(b, o, req_count(gc, ALLOC_CACHE, cf)); }
			b.alloc_cache(c, cf, b.rnd_heap());
			b.init_cache(c, (!ready.empty() && rng.chance(1, 2)) ? b.C[rng.pick(ready)].key : b.rnd_key());
		} else if (r < 89) { // bind a VM to another cache
			if (vms.empty() || ready.empty()) continue;
			int v = rng.pick(vms);
			if (b.V[v].batch || (b.V[v].flags & F_FULL)) continue;
			b.set_cache(v, rng.pick(ready));
		} else if (r < 94) { // version switch
			if (vms.empty()) continue;
			int v = rng.pick(vms);
			if (b.V[v].batch) continue;
			b.set_version(v, !b.V[v].v2);
		} else if (r < 97) { // destroy a VM
			if (vms.empty()) continue;
			int v = rng.pick(vms);
			b.destroy_vm(v);
		} else { // commitment
			Op &o = b.emit(COMMIT); o.input = b.rnd_input(); o.key = 6 < (int)b.plan.keys.size() ? 6 : 0;
			if (b.plan.keys[o.key].len != 32) { b.plan.ops.pop_back(); }
		}
	}
	// finish the batches that are still open (most of the time), in a random order
	for (int round = 0; round < 6; ++round)
		for (int v = 0; v < 16; ++v) if (b.V[v].alive && b.V[v].batch && b.hashable(v) && rng.chance(3, 4)) {
			if (b.V[v].left > 0 && rng.chance(1, 2)) { b.next(v, b.rnd_input()); b.V[v].left--; } else b.last(v);
		}
}

// ------------------------------------------------------------------ C15: enumeration + seeded histories
static void build_enumeration(Context &gc, bool pairs) {
	gc.enumeration.clear();
	struct Item { int kind; uint32_t flags; int key; std::vector<int> fault; };
	std::vector<Item> items;
	auto add_faults = [&](int kind, uint32_t flags, int key) {
		int n = req_count(gc, kind, flags);
		for (int k = 1; k <= n + 1; ++k) items.push_back({kind, flags, key, {k}});
		for (int k = 1; k <= n; ++k) items.push_back({kind, flags, key, {k, k + 1}});
		if (pairs) for (int k = 1; k <= n; ++k) for (int j = k + 2; j <= n + 2; ++j) items.push_back({kind, flags, key, {k, j}});
	};
	// key 0: 12 bytes (cacheKey copy stays in the std::string SSO buffer); key 2: 200 bytes (heap-allocated copy)
	for (uint32_t cf : gc.cache_flagsets) add_faults(ALLOC_CACHE, cf, 0);
	add_faults(ALLOC_DATASET, 0, 0); add_faults(ALLOC_DATASET, F_LARGE, 0);
	for (int key : {0, 2}) {
		for (uint32_t f : gc.vm_flagsets_light) for (uint32_t v2 : {0u, F_V2}) { if (v2 && key) continue; add_faults(CREATE_VM, f | v2, key); }
		if (key == 0) for (uint32_t f : gc.vm_flagsets_fast) add_faults(CREATE_VM, f, key);
	}
	// pack items that share a setup (same key) into plans
	size_t per_plan = gc.small ? 12 : 40;
	if (gc.mode == "enum-cold") per_plan = 1; // every item in a process of its own: the failing call is the first of its kind the process makes
	for (int key : {0, 2}) {
		std::vector<Item> sel; for (auto &it : items) if (it.key == key) sel.push_back(it);
		for (size_t pos = 0; pos < sel.size(); pos += per_plan) {
			Builder b(gc, 0x15, "enum");
			b.plan.property = "C15";
			b.alloc_cache(0, 0, 0); b.init_cache(0, key);
			bool have_ds = false;
			size_t end = std::min(sel.size(), pos + per_plan);
			for (size_t i = pos; i < end; ++i) {
				const Item &t = sel[i];
				bool do_hash = gc.small || ((i & 3) == 0);
				if (t.kind == ALLOC_CACHE) {
					{ Op &o = b.emit(ALLOC_CACHE); o.c = 1; o.flags = t.flags; o.fault = t.fault; o.expect_null = true; }
					b.alloc_cache(1, t.flags, 0);
					if (do_hash) { b.init_cache(1, key); b.create_vm(0, (t.flags & F_JIT) ? F_JIT : 0, 1, -1, 0); b.hash(0, 0); b.destroy_vm(0); }
					b.release_cache(1);
				} else if (t.kind == ALLOC_DATASET) {
					{ Op &o = b.emit(ALLOC_DATASET); o.d = 1; o.flags = t.flags; o.fault = t.fault; o.expect_null = true; }
					b.alloc_dataset(1, t.flags, 0);
					if (gc.small && (i & 3) == 0) { b.init_dataset_full(1, 0); b.create_vm(0, F_FULL, -1, 1, 0); b.hash(0, 0); b.destroy_vm(0); }
					b.release_dataset(1);
				} else {
					bool fast = (t.flags & F_FULL) != 0;
					if (fast && !have_ds) { b.alloc_dataset(0, 0, 0); if (gc.small) b.init_dataset_full(0, 0); have_ds = true; }
					{ Op &o = b.emit(CREATE_VM); o.v = 0; o.flags = t.flags; o.c = fast ? -1 : 0; o.d = fast ? 0 : -1; o.fault = t.fault; o.expect_null = true; }
					b.create_vm(0, t.flags, fast ? -1 : 0, fast ? 0 : -1, 0);
					if (do_hash && (!fast || gc.small)) b.hash(0, 0);
					b.destroy_vm(0);
				}
			}
			b.plan.note = "enumeration items " + std::to_string(pos) + ".." + std::to_string(end) + " of " + std::to_string(sel.size()) + " (key " + std::to_string(key) + ")";
			gc.enumeration.push_back(b.plan);
		}
	}
}

// ------------------------------------------------------------------ C14: shared cache/dataset, concurrent tasks
static void gen_c14(Builder &b, bool thorough) {
	Context &gc = b.gc; rt::Rng &rng = b.rng;
	b.key_limit = 3;
	int ntasks = (int)rng.range(2, 4);
	if (thorough && gc.small && rng.chance(1, 6)) ntasks = (int)rng.range(5, 8); // "any number of threads"
	b.phase = 0; b.task = 0;
	if (gc.mode == "preempt" && rng.chance(1, 2)) b.force_argon = (int)rng.pick(std::vector<uint32_t>{0u, F_SSSE3, F_AVX2, F_AVX2});
	// shared objects
	bool full_shipped = !gc.small && gc.mode == "fullshipped"; // threads hash in fast mode over one shared, complete 2 GiB dataset
	uint32_t cf = b.rnd_cache_flags();
	if (full_shipped) { cf |= F_JIT; b.plan.fullmem_model = true; }
	b.alloc_cache(0, cf, b.rnd_heap()); b.init_cache(0, b.rnd_key());
	bool second_cache = rng.chance(1, 3);
	if (second_cache) { b.alloc_cache(1, b.rnd_cache_flags(), b.rnd_heap()); b.init_cache(1, b.rnd_key()); }
	bool shared_ds = (gc.small && rng.chance(1, 2)) || full_shipped;
	if (shared_ds) { b.alloc_dataset(0, rng.chance(1, 4) ? F_LARGE : 0, b.rnd_heap()); b.init_dataset_full(0, 0); }
	bool init_ds = rng.chance(1, 2) && !full_shipped; // a second dataset initialised concurrently over disjoint ranges
	std::vector<std::pair<uint64_t, uint64_t>> ranges; // disjoint (start,count)
	if (init_ds) {
		b.alloc_dataset(1, 0, b.rnd_heap());
		uint64_t N = gc.N;
		bool whole_ds = gc.small && rng.chance(1, 6);
		uint64_t span = whole_ds ? N : std::min<uint64_t>(N, 64 + rng.below(4000));
		uint64_t base = whole_ds ? 0 : rng.below(N - span);
		if (!whole_ds && rng.chance(1, 3)) base = N - span;
		int nr = (int)rng.range(2, 8);
		std::vector<uint64_t> cuts = {0, span};
		for (int i = 0; i < nr; ++i) cuts.push_back(rng.below(span));
		std::sort(cuts.begin(), cuts.end()); cuts.erase(std::unique(cuts.begin(), cuts.end()), cuts.end());
		for (size_t i = 0; i + 1 < cuts.size(); ++i) {
			uint64_t s = base + cuts[i], c = cuts[i + 1] - cuts[i];
			if (rng.chance(1, 6)) continue; // leave a hole
			ranges.push_back({s, c});
		}
		Op &g = b.emit(DS_GUARD); g.d = 1;
	}
	{ Op &o = b.emit(RO_GUARD); o.c = 0; }
	if (second_cache) { Op &o = b.emit(RO_GUARD); o.c = 1; }
	if (shared_ds) { Op &o = b.emit(RO_GUARD); o.d = 0; }
	// concurrent phase: build each task's list separately, then interleave lists in the flat plan (order across
	// tasks in the file is irrelevant; the scheduler decides)
	b.phase = 1;
	int next_v = 0, next_c = 2;
	for (int t = 1; t <= ntasks; ++t) {
		b.task = t;
		int nops = (int)rng.range(3, thorough ? 10 : 8);
		if (!gc.small && !thorough) nops = (int)rng.range(2, 4); // shipped constants, quick tier: an interpreted hash costs seconds under the race detector
		std::vector<int> my; // my VMs
		int my_cache = -1;
		int guard = 0;
		int emitted = 0;
		const bool preempt_mode = gc.mode == "preempt";
		while (emitted < nops && ++guard < 100) {
			uint64_t r = rng.below(100);
			if (preempt_mode && rng.chance(1, 4)) r = 97; // private caches (own Argon2 fill, own compiler) are where a thread is worth suspending
			size_t before = b.plan.ops.size();
			if (r < 30 || my.empty()) {
				if (next_v >= 16 || (int)my.size() >= 2) { if (my.empty()) break; goto hash_it; }
				{
					int v = next_v++;
					bool fast = shared_ds && rng.chance(1, 2);
					if (fast) b.create_vm(v, b.rnd_vm_flags_fast(), rng.chance(1, 4) ? 0 : -1, 0, b.rnd_heap());
					else b.create_vm(v, b.rnd_vm_flags_light(), (my_cache >= 0 && rng.chance(1, 3)) ? my_cache : (second_cache && rng.chance(1, 2)) ? 1 : 0, -1, b.rnd_heap());
					my.push_back(v);
				}
			} else if (r < 60) {
			hash_it:
				int v = rng.pick(my);
				if (!b.V[v].alive || b.V[v].batch || !b.hashable(v)) continue;
				b.hash(v, b.rnd_input());
			} else if (r < 72) {
				int v = rng.pick(my);
				if (!b.V[v].alive || b.V[v].batch || !b.hashable(v)) continue;
				int n = (int)rng.range(1, 3);
				b.first(v, b.rnd_input());
				for (int i = 0; i + 1 < n; ++i) b.next(v, b.rnd_input());
				b.last(v);
			} else if (r < 80) {
				int v = rng.pick(my);
				if (!b.V[v].alive) continue;
				b.destroy_vm(v);
				my.erase(std::find(my.begin(), my.end(), v));
			} else if (r < 88) {
				if (ranges.empty()) continue;
				auto rg = ranges.back(); ranges.pop_back();
				// split one range into 1-2 calls for this task
				if (rg.second > 1 && rng.chance(1, 2)) { uint64_t k = 1 + rng.below(rg.second - 1); b.init_dataset(1, 0, rg.first, k); b.init_dataset(1, 0, rg.first + k, rg.second - k); }
				else b.init_dataset(1, 0, rg.first, rg.second);
			} else if (r < 94) {
				int v = rng.pick(my);
				if (!b.V[v].alive || b.V[v].batch) continue;
				if (!(b.V[v].flags & F_FULL) && second_cache) b.set_cache(v, rng.chance(1, 2) ? 1 : 0);
				else b.set_version(v, !b.V[v].v2);
			} else {
				// private cache: allocate, initialise, re-key, use, release
				if (!gc.small && !thorough) continue;
				if (my_cache < 0) {
					if (next_c >= 8) continue;
					my_cache = next_c++;
					b.alloc_cache(my_cache, b.rnd_cache_flags(), b.rnd_heap()); b.init_cache(my_cache, b.rnd_key());
					if (rng.chance(1, 2)) { Op &o = b.emit(CACHE_CHECK); o.c = my_cache; }
				} else if (rng.chance(1, 2)) {
					bool in_batch = false; for (int v : my) if (b.V[v].alive && b.V[v].batch && b.V[v].c == my_cache) in_batch = true;
					if (in_batch) continue;
					b.init_cache(my_cache, b.rnd_key());
					if (rng.chance(1, 2)) { Op &o = b.emit(CACHE_CHECK); o.c = my_cache; }
					for (int v : my) if (b.V[v].alive && !(b.V[v].flags & F_FULL) && b.V[v].c == my_cache) { b.set_cache(v, my_cache); if (rng.chance(1, 2)) b.hash(v, b.rnd_input()); }
				}
				else { for (int v : my) if (b.V[v].alive && !(b.V[v].flags & F_FULL) && b.V[v].c == my_cache) { b.destroy_vm(v); } my.erase(std::remove_if(my.begin(), my.end(), [&](int v) { return !b.V[v].alive; }), my.end()); b.release_cache(my_cache); my_cache = -1; }
			}
			emitted += (int)(b.plan.ops.size() - before);
		}
		// remaining init ranges go to the last task
		if (t == ntasks) while (!ranges.empty()) { auto rg = ranges.back(); ranges.pop_back(); b.init_dataset(1, 0, rg.first, rg.second); }
	}
	// the flat list must be sorted by phase only; tasks may appear in any order inside the phase
	b.phase = 2; b.task = 0;
	{ Op &o = b.emit(RO_LIFT); o.c = 0; }
	if (second_cache) { Op &o = b.emit(RO_LIFT); o.c = 1; }
	if (shared_ds) { Op &o = b.emit(RO_LIFT); o.d = 0; }
	if (init_ds) { Op &o = b.emit(DS_CHECK); o.d = 1; }
	// scheduler parameters
	static const uint32_t dens[] = {64, 16, 8, 4, 2};
	uint64_t m = rng.below(7);
	if (m == 0) { b.plan.p_num = 0; b.plan.p_den = 1; }           // run to completion, tasks in random order
	else if (m <= 5) { b.plan.p_num = 1; b.plan.p_den = dens[m - 1]; }
	else { b.plan.p_num = 1; b.plan.p_den = 32; }
	if (rng.chance(1, 2)) { b.plan.park_site = rng.chance(2, 3) ? rt::SITE_ALLOC : (int)rng.pick(std::vector<int>{1, 3, 6, 7, rt::SITE_MMAP, rt::SITE_MPROTECT, rt::SITE_MUNMAP, rt::SITE_MUNMAP, rt::SITE_FREE, rt::SITE_SIGACTION, rt::SITE_OP_BEGIN}); b.plan.park_num = 3; b.plan.park_den = 4; }
}

// ------------------------------------------------------------------ C08: dataset initialisation plans
static void gen_c08(Builder &b, bool thorough) {
	Context &gc = b.gc; rt::Rng &rng = b.rng;
	b.key_limit = 3;
	uint64_t N = gc.N;
	b.phase = 0; b.task = 0;
	uint32_t cf = rng.pick(gc.cache_flagsets);
	if (gc.mode == "fullshipped") { cf |= F_JIT; b.plan.fullmem_model = true; }
	b.alloc_cache(0, cf, b.rnd_heap()); b.init_cache(0, b.rnd_key());
	b.alloc_dataset(0, rng.chance(1, 5) ? F_LARGE : 0, b.rnd_heap());
	{ Op &g = b.emit(DS_GUARD); g.d = 0; }
	bool full_shipped = !gc.small && gc.mode == "fullshipped"; // whole 34 M-item dataset, compiled initialiser, then fast-mode hashing
	bool whole = (gc.small && rng.chance(1, 3)) || full_shipped;
	// target ranges (disjoint, sorted)
	std::vector<std::pair<uint64_t, uint64_t>> targets; // [lo,hi)
	if (whole) targets.push_back({0, N});
	else {
		int nt = (int)rng.range(1, 4);
		uint64_t maxlen = gc.small ? 3000 : (thorough ? 20000 : 4000);
		std::vector<std::pair<uint64_t, uint64_t>> cand;
		for (int i = 0; i < nt; ++i) {
			uint64_t len;
			uint64_t m = rng.below(10);
			if (m < 3) len = rng.below(4);                        // 0..3
			else if (m < 5) len = 4 * (1 + rng.below(16));         // multiple of 4
			else if (m < 8) len = 5 + rng.below(60);               // small, any residue
			else len = 1 + rng.below(maxlen);
			if (len > N) len = N;
			uint64_t lo;
			uint64_t w = rng.below(10);
			if (w < 2) lo = N - std::min(N, len) - (len == 0 ? 1 : 0);   // touching the last item
			else if (w < 3) lo = 0;
			else if (w < 5) { uint64_t page_items = 64; lo = (rng.below(N / page_items)) * page_items + (page_items - 1 - rng.below(3)); } // straddles a 4 KiB page
			else lo = rng.below(N);
			if (lo + len > N) lo = N - len;
			if (lo >= N) lo = N - 1;
			if (len == 0 && lo >= N) lo = N - 1;
			cand.push_back({lo, lo + len});
		}
		std::sort(cand.begin(), cand.end());
		uint64_t prev_hi = 0; bool firstr = true;
		for (auto &c : cand) { if (!firstr && c.first < prev_hi) continue; targets.push_back(c); prev_hi = std::max(prev_hi, c.second); firstr = false; }
		// adjacent neighbour range that shares a page / a 4-item group with the previous one
		if (rng.chance(1, 2) && !targets.empty()) { auto t = targets[rng.below(targets.size())]; uint64_t lo = t.second, len = 1 + rng.below(9); bool ok = lo + len <= N; for (auto &o : targets) if (lo < o.second && o.first < lo + len) ok = false; if (ok) targets.push_back({lo, lo + len}); }
	}
	// partition into calls
	std::vector<std::pair<uint64_t, uint64_t>> calls; // (start,count)
	for (auto &t : targets) {
		uint64_t lo = t.first, hi = t.second;
		if (hi == lo) { calls.push_back({lo, 0}); continue; }
		std::vector<uint64_t> cuts = {lo, hi};
		int nc = (int)rng.below(4);
		for (int i = 0; i < nc; ++i) cuts.push_back(lo + rng.below(hi - lo));
		std::sort(cuts.begin(), cuts.end()); cuts.erase(std::unique(cuts.begin(), cuts.end()), cuts.end());
		for (size_t i = 0; i + 1 < cuts.size(); ++i) calls.push_back({cuts[i], cuts[i + 1] - cuts[i]});
	}
	for (size_t i = calls.size(); i > 1; --i) std::swap(calls[i - 1], calls[rng.below(i)]);
	int ntasks = (int)rng.range(1, 4);
	if ((int)calls.size() < ntasks) ntasks = (int)std::max<size_t>(1, calls.size());
	b.phase = 1;
	for (size_t i = 0; i < calls.size(); ++i) {
		b.task = ntasks == 1 ? 0 : 1 + (int)(rng.below(ntasks));
		b.init_dataset(0, 0, calls[i].first, calls[i].second);
	}
	// second epoch (a third of the partial plans): the SAME cache object is re-keyed and some ranges are initialised again -
	// exact repeats of earlier calls, tiny calls inside the 4-item group of an earlier call, sub-ranges. Every item must
	// then hold the value of the key of the LAST call that covered it (anything remembered from the first epoch is stale).
	bool second_epoch = !whole && !calls.empty() && rng.chance(1, 3);
	if (second_epoch) {
		b.phase = 2; b.task = 0;
		int k2 = b.rnd_key(); if (k2 == b.C[0].key) k2 = (k2 + 1) % 3;
		// keys related to the first one: a proper prefix of it, the empty key, a one-byte neighbour (whatever the re-initialisation
		// decides from a comparison of old and new key must be decided from the whole key)
		if (gc.small && rng.chance(1, 3)) { static const int rel[3][3] = {{4, 5, 3}, {5, 5, 0}, {7, 5, 7}}; int kk = rel[b.C[0].key % 3][rng.below(3)]; if (kk < b.nkeys && kk != b.C[0].key) k2 = kk; }
		if (rng.chance(1, 5)) { // release + re-allocate instead of re-keying in place (same slot; the heap policy decides the addresses)
			uint32_t f = b.C[0].flags; b.release_cache(0); b.alloc_cache(0, f, rng.chance(1, 2) ? (seam::HP_REUSE_BIG | seam::HP_REUSE_SMALL) : b.rnd_heap());
		}
		if (kInitCacheFaults && rng.chance(1, 6)) { Op &o = b.emit(INIT_CACHE); o.c = 0; o.key = k2; o.fault.push_back(1 + (int)rng.below(9000)); b.C[0].key = -2; b.C[0].epoch++; } // failed attempt first, then the retry
		b.init_cache(0, k2);
		b.phase = 3;
		int n2 = (int)rng.range(1, 4);
		for (int i = 0; i < n2; ++i) {
			auto base = calls[rng.below(calls.size())];
			uint64_t st = base.first, cnt = base.second;
			uint64_t m = rng.below(3);
			if (m == 1 || cnt == 0) { // tiny call inside the 4-item group at the start or the end of the earlier call
				uint64_t g = (rng.chance(1, 2) || cnt < 4) ? base.first : base.first + cnt - (cnt % 4 ? cnt % 4 : 4);
				st = g + rng.below(3); cnt = 1 + rng.below(3);
				if (st >= N) st = N - 1;
				if (st + cnt > N) cnt = N - st;
			} else if (m == 2 && cnt > 2) { uint64_t a = rng.below(cnt - 1); st = base.first + a; cnt = 1 + rng.below(cnt - a); }
			b.task = ntasks == 1 ? 0 : 1 + (int)(rng.below(ntasks));
			// concurrent calls of one phase must be disjoint: a second-epoch call that overlaps earlier ones of this phase goes to
			// their task (the calls of one task run in plan order); if they belong to different tasks it is dropped
			std::set<int> owners;
			for (auto &o : b.plan.ops) if (o.kind == INIT_DATASET && o.phase == 3 && o.start < st + std::max<uint64_t>(cnt, 1) && st < o.start + std::max<uint64_t>(o.count, 1)) owners.insert(o.task);
			if (owners.size() > 1) continue;
			if (owners.size() == 1) b.task = *owners.begin();
			b.init_dataset(0, 0, st, cnt);
		}
	}
	// if only one distinct task got ops it simply runs inline
	b.phase = 4; b.task = 0;
	{ Op &o = b.emit(DS_CHECK); o.d = 0; }
	if (whole) {
		b.D[0].complete = true; b.D[0].key = b.C[0].key; b.D[0].cflags = b.C[0].flags;
		b.create_vm(0, b.rnd_vm_flags_fast(), -1, 0, b.rnd_heap());
		b.hash(0, b.rnd_input()); b.hash(0, b.rnd_input());
	}
	static const uint32_t dens[] = {256, 64, 16, 4, 2};
	uint64_t m = rng.below(6);
	if (m == 0) { b.plan.p_num = 0; b.plan.p_den = 1; } else { b.plan.p_num = 1; b.plan.p_den = dens[m - 1]; }
	if (rng.chance(1, 2)) { b.plan.park_site = rng.chance(1, 2) ? 2 : 3; b.plan.park_num = rng.chance(1, 2) ? 1 : 3; b.plan.park_den = 4; } // DATASET_SPLIT / DATASET_ITEM
}

// C08 key sweep: many keys per plan, a small range each, through the compiled initialiser (and sometimes the
// interpreted one). This is a seeded sweep over an INPUT dimension (the key), not over schedules or faults: a key
// whose SuperscalarHash programs contain a rarely generated instruction/immediate is only met by searching keys.
static void gen_c08_keysweep(Builder &b) {
	Context &gc = b.gc; rt::Rng &rng = b.rng;
	uint64_t N = gc.N;
	b.plan.keys.clear();
	int nk = gc.small ? 24 : 3;
	for (int i = 0; i < nk; ++i) b.plan.keys.push_back(Blob((uint32_t)rng.range(1, 48), rng.next() | 0x200000));
	b.nkeys = nk;
	b.phase = 0; b.task = 0;
	b.alloc_dataset(0, 0, 0);
	for (int i = 0; i < nk; ++i) {
		uint32_t cf = rng.chance(4, 5) ? F_JIT : 0;
		b.alloc_cache(0, cf, 0); b.init_cache(0, i);
		{ Op &g = b.emit(DS_GUARD); g.d = 0; }
		uint64_t count = 4 + rng.below(29), start = rng.below(N - count);
		b.init_dataset(0, 0, start, count);
		{ Op &o = b.emit(DS_CHECK); o.d = 0; }
		b.release_cache(0);
	}
	b.plan.note = "keysweep";
}

// Faults of the kinds the creating-call enumeration does not cover, attached to a finished history:
//  - a page-protection request (mprotect) inside a call is refused. The unchanged library ignores the result, so it may
//    crash afterwards (no listed property covers that; the executor books everything after the refusal as a note) - but it
//    must never answer a refusal by asking for W+X, and a single-call hash that does return must have restored MXCSR;
//  - an allocation request inside a single-call hash fails (the first hash of a JIT VM grows a vector): the exception
//    leaves the C API, the caller catches it and goes on using the VM.
static void attach_late_faults(Builder &b, bool page_faults, bool hash_faults) {
	rt::Rng r = rt::substream(b.plan.seed, "latefaults");
	if (page_faults && r.chance(1, 20)) {
		std::vector<size_t> cand;
		for (size_t i = 0; i < b.plan.ops.size(); ++i) { int k = b.plan.ops[i].kind; if ((k == INIT_CACHE || k == CREATE_VM || k == SET_CACHE || k == HASH || k == FIRST || k == NEXT || k == LAST || k == SET_V2 || k == CLEAR_V2 || k == ALLOC_CACHE) && !b.plan.ops[i].expect_null) cand.push_back(i); }
		int n = (int)r.range(1, 2);
		for (int j = 0; j < n && !cand.empty(); ++j) b.plan.ops[cand[r.below(cand.size())]].pfault.push_back(1 + (int)r.below(3));
	}
	if (hash_faults && r.chance(1, 8)) {
		std::vector<size_t> cand;
		for (size_t i = 0; i < b.plan.ops.size(); ++i) if (b.plan.ops[i].kind == HASH) cand.push_back(i);
		int n = (int)r.range(1, 2);
		for (int j = 0; j < n && !cand.empty(); ++j) { Op &o = b.plan.ops[cand[r.below(cand.size())]]; if (o.fault.empty()) o.fault.push_back(1 + (int)r.below(2)); }
	}
}

// Instruction-level preemption shots: the thread executing the chosen op is suspended after k library instructions of
// that call (k log-uniform), wherever that is - inside the Argon2 fill, inside JIT-emitted code, between a save and a
// restore - and another simulated thread runs.
static void add_preempt_shots(Builder &b, int max_shots) {
	rt::Rng r = rt::substream(b.plan.seed, "preempt");
	std::set<int> multi; { std::map<int, std::set<int>> pt; for (auto &o : b.plan.ops) pt[o.phase].insert(o.task); for (auto &kv : pt) if (kv.second.size() > 1) multi.insert(kv.first); }
	std::vector<int> cand;
	for (size_t i = 0; i < b.plan.ops.size(); ++i) {
		const Op &o = b.plan.ops[i];
		if (!multi.count(o.phase)) continue;
		if (o.kind == INIT_CACHE || o.kind == INIT_DATASET || o.kind == HASH || o.kind == FIRST || o.kind == NEXT || o.kind == LAST || o.kind == CREATE_VM || o.kind == DESTROY_VM || o.kind == SET_CACHE ||
		    o.kind == ALLOC_CACHE || o.kind == RELEASE_CACHE || o.kind == SET_V2 || o.kind == CLEAR_V2) cand.push_back((int)i);
	}
	if (cand.empty()) return;
	int n = (int)r.range(1, (uint64_t)max_shots);
	for (int j = 0; j < n; ++j) {
		Op &o = b.plan.ops[(size_t)cand[r.below(cand.size())]];
		if (o.preempt) continue;
		// a single step costs ~30 us in this VM, so the instruction budget stays small and depth comes from the scheduling
		// points inside the call (per Argon2 block, per dataset item, per interpreter iteration, per allocation request)
		o.preempt = 1 + (uint32_t)r.below((uint64_t)1 << r.range(2, 10));
		if (o.kind == INIT_DATASET && o.count > 0 && o.count < 3000 && r.chance(1, 3)) {
			// epilogue shot: the interpreted initialiser passes one scheduling point per item, so the last one is known; a few
			// instructions after it the call is in whatever it does once the items are written (bookkeeping, counters)
			o.preempt_at = (uint32_t)o.count - (r.chance(1, 4) ? 1 : 0);
			o.preempt = 1 + (uint32_t)r.below(96);
		} else if (r.chance(3, 4)) {
			uint32_t lim = o.kind == INIT_CACHE ? 1200 : (o.kind == HASH || o.kind == FIRST || o.kind == NEXT || o.kind == LAST) ? 600 : o.kind == INIT_DATASET ? (uint32_t)std::min<uint64_t>(o.count + 2, 400) : 8;
			o.preempt_at = 1 + (uint32_t)r.below((uint64_t)1 << r.range(0, 11)) % lim;
		}
	}
}

// sort ops by phase keeping relative order (tasks of the concurrent phase were emitted task by task)
static void finish(Plan &p) { std::stable_sort(p.ops.begin(), p.ops.end(), [](const Op &a, const Op &b) { return a.phase < b.phase; }); }

uint64_t enum_size(Context &gc) {
	if (gc.enumeration.empty()) build_enumeration(gc, gc.tier == "thorough");
	return gc.enumeration.size();
}

ops::Plan generate(Context &gc, uint64_t run_seed, uint64_t index) {
	bool thorough = gc.tier == "thorough";
	const std::string &P = gc.property;
	if (P == "C15" && (gc.mode == "enum" || gc.mode == "enum-cold")) {
		if (gc.enumeration.empty()) build_enumeration(gc, thorough);
		Plan p = gc.enumeration[index % gc.enumeration.size()];
		p.seed = run_seed; p.heap_seed = rt::mix64(run_seed, 77) | 1;
		return p;
	}
	Builder b(gc, run_seed, P.c_str());
#ifdef RXSIM_TSAN
	b.env_masked_only = true;
#endif
	HistoryOpts ho;
	if (thorough) ho.max_ops = 48;
	if (!gc.small) { ho.max_ops = thorough ? 24 : 14; ho.min_ops = 6; }
	if (P == "C03") { history(b, ho); }
	else if (P == "C13") {
		if (gc.mode == "envscan") {
			// exhaustive MXCSR scan: index -> (VM class, block of 256 environments)
			static const uint32_t classes[] = {0, F_JIT, F_HARD, F_JIT | F_HARD, F_JIT | F_SECURE, F_LARGE, F_JIT | F_HARD | F_LARGE | F_SECURE};
			uint64_t nblocks = 256;
			uint32_t f = classes[(index / nblocks) % 7];
			if ((f & F_HARD) && !(gc.cpu_flags & F_HARD)) f &= ~F_HARD;
			uint32_t base = (uint32_t)(index % nblocks) * 256;
			b.alloc_cache(0, (f & F_JIT) ? F_JIT : 0, 0); b.init_cache(0, 0);
			b.create_vm(0, f | ((index / (nblocks * 7)) & 1 ? F_V2 : 0), 0, -1, 0);
			for (uint32_t i = 0; i < 256; ++i) {
				uint32_t e = base + i; // 16 bits: [15]=FTZ [14:13]=RC [12:7]=masks [6]=DAZ [5:0]=flags
				Op &o = b.emit(HASH); o.v = 0; o.input = (int)(i % 4); o.env = (int64_t)e;
			}
			b.plan.note = "envscan";
		} else if (gc.mode == "threads") {
			// 2-4 simulated threads hashing at the same time, each call entered under its own MXCSR: the caller's
			// environment is per thread, so whatever the library saves and restores must be per call
			b.attach_env = true;
			gen_c14(b, thorough);
			b.plan.note = "threads";
			if (b.rng.chance(1, 2)) add_preempt_shots(b, 2);
		} else { ho.env = true; ho.checks = false; history(b, ho); attach_late_faults(b, true, false); }
	}
	else if (P == "C15") { ho.faults = true; ho.checks = false; history(b, ho); } // (faults in the creating calls only: that is what C15 is about)
	else if (P == "C16") { ho.secure_only = true; ho.faults = true; ho.checks = false; ho.audit_every = thorough ? 1 : (int)b.rng.range(3, 8); history(b, ho); attach_late_faults(b, true, true); }
	else if (P == "C14") { gen_c14(b, thorough); if (gc.mode == "preempt") add_preempt_shots(b, 3); }
	else if (P == "C08") { if (gc.mode == "keysweep") gen_c08_keysweep(b); else gen_c08(b, thorough); if (gc.mode == "preempt") add_preempt_shots(b, 3); }
	else history(b, ho);
	finish(b.plan);
	return b.plan;
}

} // namespace gen
