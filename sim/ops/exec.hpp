// rxsim executor: runs one explicit plan against the real library under the simulator.
#pragma once
#include "ops.hpp"
#include "../seams/seams.hpp"
#include <map>

namespace exec {

struct Options {
	bool trace = false;
	bool replay = false;       // use plan.sched as forced switches
	uint64_t run_index = 0;
};

struct Report {
	bool invalid = false;            // plan left the documented contract / model unavailable (never a violation)
	std::string invalid_reason;
	std::vector<ops::Violation> violations;
	std::vector<ops::OpResult> results;
	std::vector<rt::Switch> recorded;
	uint64_t fingerprint = 0;
	uint64_t sem_fingerprint = 0;    // results only (see rt::EventLog::sem)
	uint64_t events = 0;
	rt::SchedStats sched;
	seam::SeamStats seams;
	std::map<std::string, uint64_t> probes;
	int ops_executed = 0;
	int max_tasks = 1;
	std::vector<std::string> trace;
};

void process_setup(const char *argv0);
void enable_shipped_full_mem_model(); // a second 2 GiB dataset for the fresh-object model (dedicated thorough runs only)
Report execute(const ops::Plan &plan, const Options &opt);
std::string report_to_json(const Report &r, const ops::Plan &plan, bool with_plan);

// info about the build
uint64_t dataset_items();
const char *config_name();
const char *variant_name();

// called by the TSan glue
void note_tsan_report(const std::string &sig, const std::string &detail);

} // namespace exec
