// rxsim op language: names, JSON, static contract model.
#include "ops.hpp"
#include <stdio.h>
#include <string.h>
#include <set>
#include <algorithm>

namespace ops {

static const char *KNAMES[KIND_COUNT] = {
	"alloc_cache", "init_cache", "release_cache",
	"alloc_dataset", "init_dataset", "release_dataset",
	"create_vm", "destroy_vm", "set_cache", "set_dataset", "set_v2", "clear_v2",
	"hash", "first", "next", "last", "commit",
	"ds_guard", "ds_check", "cache_check", "ro_guard", "ro_lift", "maps_audit"};

const char *kind_name(int k) { return (k >= 0 && k < KIND_COUNT) ? KNAMES[k] : "?"; }
int kind_from_name(const std::string &s) {
	for (int i = 0; i < KIND_COUNT; ++i) if (s == KNAMES[i]) return i;
	return -1;
}

std::vector<uint8_t> Blob::bytes() const {
	std::vector<uint8_t> b(len);
	for (uint32_t i = 0; i < len; i += 8) {
		uint64_t x = seed * 0x9e3779b97f4a7c15ULL + (uint64_t)(i / 8) + 1;
		uint64_t w = rt::splitmix64(x);
		for (uint32_t j = 0; j < 8 && i + j < len; ++j) b[i + j] = (uint8_t)(w >> (8 * j));
	}
	if (len && tweak == 1) b[len - 1] ^= 0xFF;
	if (len && tweak == 2) b[0] ^= 0xFF;
	return b;
}

// ------------------------------------------------------------------ JSON
static void jnum(std::string &s, const char *k, uint64_t v, bool &first) {
	char buf[64]; snprintf(buf, sizeof buf, "%s\"%s\":%llu", first ? "" : ",", k, (unsigned long long)v); s += buf; first = false;
}
static void jint(std::string &s, const char *k, int64_t v, bool &first) {
	char buf[64]; snprintf(buf, sizeof buf, "%s\"%s\":%lld", first ? "" : ",", k, (long long)v); s += buf; first = false;
}

std::string plan_to_json(const Plan &p, bool pretty) {
	std::string s = "{";
	const char *nl = pretty ? "\n " : "";
	s += "\"property\":\"" + rt::json_escape(p.property) + "\"";
	char buf[128];
	snprintf(buf, sizeof buf, ",%s\"seed\":%llu,\"heap_seed\":%llu", nl, (unsigned long long)p.seed, (unsigned long long)p.heap_seed); s += buf;
	snprintf(buf, sizeof buf, ",\"p_num\":%u,\"p_den\":%u,\"park_site\":%d,\"park_num\":%u,\"park_den\":%u,\"audit_every\":%d,\"replay\":%s",
	         p.p_num, p.p_den, p.park_site, p.park_num, p.park_den, p.audit_every, p.replay ? "true" : "false"); s += buf;
	if (p.items) { snprintf(buf, sizeof buf, ",\"items\":%llu", (unsigned long long)p.items); s += buf; }
	if (p.fullmem_model) s += ",\"fullmem_model\":true";
	if (p.cold) s += ",\"cold\":true";
	if (p.warmup_seed) { snprintf(buf, sizeof buf, ",\"warmup_seed\":%llu", (unsigned long long)p.warmup_seed); s += buf; }
	if (!p.note.empty()) s += ",\"note\":\"" + rt::json_escape(p.note) + "\"";
	auto blobs = [&](const char *name, const std::vector<Blob> &v) {
		s += std::string(",") + nl + "\"" + name + "\":[";
		for (size_t i = 0; i < v.size(); ++i) {
			if (v[i].tweak) snprintf(buf, sizeof buf, "%s{\"len\":%u,\"seed\":%llu,\"tweak\":%u}", i ? "," : "", v[i].len, (unsigned long long)v[i].seed, v[i].tweak);
			else snprintf(buf, sizeof buf, "%s{\"len\":%u,\"seed\":%llu}", i ? "," : "", v[i].len, (unsigned long long)v[i].seed);
			s += buf;
		}
		s += "]";
	};
	blobs("keys", p.keys);
	blobs("inputs", p.inputs);
	s += std::string(",") + nl + "\"ops\":[";
	for (size_t i = 0; i < p.ops.size(); ++i) {
		const Op &o = p.ops[i];
		if (i) s += ",";
		if (pretty) s += "\n  ";
		s += "{\"k\":\""; s += kind_name(o.kind); s += "\"";
		bool first = false;
		if (o.phase) jint(s, "ph", o.phase, first);
		if (o.task) jint(s, "t", o.task, first);
		if (o.c >= 0) jint(s, "c", o.c, first);
		if (o.d >= 0) jint(s, "d", o.d, first);
		if (o.v >= 0) jint(s, "v", o.v, first);
		if (o.flags) jnum(s, "flags", o.flags, first);
		if (o.key >= 0) jint(s, "key", o.key, first);
		if (o.input >= 0) jint(s, "input", o.input, first);
		if (o.kind == INIT_DATASET) { jnum(s, "start", o.start, first); jnum(s, "count", o.count, first); }
		if (!o.fault.empty()) { s += ",\"fault\":["; for (size_t k = 0; k < o.fault.size(); ++k) { snprintf(buf, sizeof buf, "%s%d", k ? "," : "", o.fault[k]); s += buf; } s += "]"; }
		if (!o.pfault.empty()) { s += ",\"pfault\":["; for (size_t k = 0; k < o.pfault.size(); ++k) { snprintf(buf, sizeof buf, "%s%d", k ? "," : "", o.pfault[k]); s += buf; } s += "]"; }
		if (o.env >= 0) jint(s, "env", o.env, first);
		if (o.heap) jint(s, "heap", o.heap, first);
		if (o.preempt) { jnum(s, "pre", o.preempt, first); if (o.preempt_at) jnum(s, "prey", o.preempt_at, first); }
		if (o.expect_null) s += ",\"null\":true";
		s += "}";
	}
	s += "]";
	s += std::string(",") + nl + "\"sched\":[";
	for (size_t i = 0; i < p.sched.size(); ++i) { snprintf(buf, sizeof buf, "%s[%llu,%d]", i ? "," : "", (unsigned long long)p.sched[i].step, p.sched[i].task); s += buf; }
	s += "]}";
	return s;
}

bool plan_from_json(const rt::JVal &j, Plan &p, std::string &err) {
	if (j.t != rt::JVal::OBJ) { err = "plan is not an object"; return false; }
	p = Plan();
	p.property = j.str("property");
	p.seed = j.u64("seed"); p.heap_seed = j.u64("heap_seed", 1);
	p.p_num = (uint32_t)j.num("p_num"); p.p_den = (uint32_t)j.num("p_den", 1); if (!p.p_den) p.p_den = 1;
	p.park_site = (int)j.num("park_site"); p.park_num = (uint32_t)j.num("park_num"); p.park_den = (uint32_t)j.num("park_den", 1); if (!p.park_den) p.park_den = 1;
	p.audit_every = (int)j.num("audit_every");
	p.items = j.u64("items");
	p.warmup_seed = j.u64("warmup_seed");
	if (auto r = j.get("cold")) p.cold = r->t == rt::JVal::BOOL && r->b;
	if (auto r = j.get("fullmem_model")) p.fullmem_model = r->t == rt::JVal::BOOL && r->b;
	if (auto r = j.get("replay")) p.replay = r->t == rt::JVal::BOOL && r->b;
	p.note = j.str("note");
	auto blobs = [&](const char *name, std::vector<Blob> &v) {
		if (auto a = j.get(name)) for (auto &e : a->a) { Blob b; b.len = (uint32_t)e.num("len"); b.seed = e.u64("seed"); b.tweak = (uint32_t)e.num("tweak"); v.push_back(b); }
	};
	blobs("keys", p.keys); blobs("inputs", p.inputs);
	auto ops = j.get("ops");
	if (!ops || ops->t != rt::JVal::ARR) { err = "no ops"; return false; }
	for (auto &e : ops->a) {
		Op o;
		o.kind = kind_from_name(e.str("k"));
		if (o.kind < 0) { err = "unknown op kind " + e.str("k"); return false; }
		o.phase = (int)e.num("ph"); o.task = (int)e.num("t");
		o.c = (int)e.num("c", -1); o.d = (int)e.num("d", -1); o.v = (int)e.num("v", -1);
		o.flags = (uint32_t)e.num("flags");
		o.key = (int)e.num("key", -1); o.input = (int)e.num("input", -1);
		o.start = e.u64("start"); o.count = e.u64("count");
		if (auto f = e.get("fault")) for (auto &x : f->a) o.fault.push_back((int)x.i);
		if (auto f = e.get("pfault")) for (auto &x : f->a) o.pfault.push_back((int)x.i);
		o.env = e.num("env", -1); o.heap = (int)e.num("heap");
		if (auto n = e.get("null")) o.expect_null = n->t == rt::JVal::BOOL && n->b;
		o.preempt = (uint32_t)e.num("pre"); o.preempt_at = (uint32_t)e.num("prey");
		p.ops.push_back(o);
	}
	if (auto s = j.get("sched")) for (auto &e : s->a) if (e.a.size() == 2) p.sched.push_back(rt::Switch{(uint64_t)e.a[0].i, (int)e.a[1].i});
	return true;
}

uint64_t plan_shape_hash(const Plan &p) {
	uint64_t h = 0x1234;
	for (auto &o : p.ops) {
		h = rt::mix64(h, (uint64_t)o.kind | ((uint64_t)o.flags << 8) | ((uint64_t)o.task << 24) | ((uint64_t)(o.fault.empty() ? 0 : o.fault[0]) << 32) | ((uint64_t)(o.heap & 7) << 44) | ((uint64_t)(o.pfault.empty() ? 0 : o.pfault[0] & 7) << 48));
		if (o.kind == INIT_DATASET) h = rt::mix64(h, (o.count < 4 ? o.count : 4 + (o.count & 3)));
	}
	return h;
}

// ------------------------------------------------------------------ contract model
namespace {
const uint32_t F_LARGE = 1, F_HARD = 2, F_FULL = 4, F_JIT = 8, F_SECURE = 16, F_ARGON = 96, F_V2 = 128;
struct Iv { uint64_t lo, hi; Blob key; uint32_t cflags; };
struct MC { bool alive = false; uint32_t flags = 0; bool has_key = false; Blob key; int epoch = 0; int id = 0; bool has_failed = false; Blob failed_key; std::set<Blob> ever; };
struct MD { bool alive = false; uint32_t flags = 0; int id = 0; std::vector<Iv> iv; bool guarded = false; };
struct MV { bool alive = false; uint32_t flags = 0; bool v2 = false; int c = -1, cid = 0, cepoch = 0; int d = -1, did = 0; int pending = -1; bool batch = false; };
const int MAXC = 16, MAXD = 8, MAXV = 32;

struct Touch { std::set<int> ro_tasks, mut_tasks; std::vector<std::pair<int, std::pair<uint64_t, uint64_t>>> init_ranges; std::set<int> read_tasks; };
}

Annotated annotate(const Plan &p, uint64_t N) {
	Annotated A;
	A.expect.resize(p.ops.size());
	MC C[MAXC]; MD D[MAXD]; MV V[MAXV];
	int idc = 0, idd = 0;
	auto fail = [&](size_t i, const std::string &why) { A.valid = false; A.error = "op " + std::to_string(i) + " (" + kind_name(p.ops[i].kind) + "): " + why; return A; };
	auto &pr = A.probes;

	// per phase sharing discipline
	std::map<int, std::set<int>> phase_tasks;
	for (auto &o : p.ops) phase_tasks[o.phase].insert(o.task);
	std::map<std::pair<int, int>, Touch> ct, dt;            // (phase, slot)
	std::map<std::pair<int, int>, std::set<int>> vt;         // (phase, vm slot) -> tasks
	int last_phase = 0;

	auto dataset_uniform = [&](const MD &d, Blob &key, uint32_t &cflags) -> bool {
		if (d.iv.empty()) return false;
		uint64_t pos = 0;
		for (auto &iv : d.iv) { // sorted, disjoint
			if (iv.lo != pos) return false;
			if (!(iv.key == d.iv[0].key) || iv.cflags != d.iv[0].cflags) return false;
			pos = iv.hi;
		}
		if (pos != N) return false;
		key = d.iv[0].key; cflags = d.iv[0].cflags; return true;
	};
	auto find_key_index = [&](const Blob &b) -> int { for (size_t i = 0; i < p.keys.size(); ++i) if (p.keys[i] == b) return (int)i; return -1; };

	// returns "" if the VM may execute programs now; fills e
	auto hashable = [&](const MV &v, Expect &e, int phase, int task) -> std::string {
		if (v.flags & F_FULL) {
			if (v.d < 0 || !D[v.d].alive || D[v.d].id != v.did) return "dataset of the VM is gone";
			Blob k; uint32_t cf;
			if (!dataset_uniform(D[v.d], k, cf)) return "dataset is not completely initialised from one key";
			e.key = find_key_index(k); e.cacheflags = cf;
			dt[{phase, v.d}].read_tasks.insert(task);
		} else {
			if (v.c < 0 || !C[v.c].alive || C[v.c].id != v.cid) return "cache of the VM is gone (set_cache needed)";
			if (!C[v.c].has_key) return "cache not initialised";
			if (C[v.c].epoch != v.cepoch) return "cache was re-keyed; set_cache needed";
			e.key = find_key_index(C[v.c].key); e.cacheflags = C[v.c].flags & (F_JIT | F_LARGE | F_ARGON);
			ct[{phase, v.c}].ro_tasks.insert(task);
		}
		e.vmflags = v.flags & (F_LARGE | F_HARD | F_FULL | F_JIT | F_SECURE);
		e.v2 = v.v2;
		return "";
	};

	for (size_t i = 0; i < p.ops.size(); ++i) {
		const Op &o = p.ops[i];
		Expect &e = A.expect[i];
		if (o.phase < last_phase) return fail(i, "phases not in order");
		last_phase = o.phase;
		if (o.phase > A.max_phase) A.max_phase = o.phase;
		bool concurrent = phase_tasks[o.phase].size() > 1;
		auto needc = [&](int c) { return c >= 0 && c < MAXC; };
		auto needd = [&](int d) { return d >= 0 && d < MAXD; };
		auto needv = [&](int v) { return v >= 0 && v < MAXV; };
		if (!o.fault.empty() && !(o.kind == ALLOC_CACHE || o.kind == ALLOC_DATASET || o.kind == CREATE_VM || o.kind == HASH || o.kind == FIRST || o.kind == NEXT || o.kind == LAST || o.kind == COMMIT || o.kind == INIT_CACHE))
			return fail(i, "allocation fault on a call that is not generated with faults");
		if (o.expect_null && o.fault.empty()) return fail(i, "expect_null without fault");
		if (o.env >= 0 && !(o.kind == HASH || o.kind == FIRST || o.kind == NEXT || o.kind == LAST)) return fail(i, "environment on a non-hash call");
		switch (o.kind) {
		case ALLOC_CACHE:
			if (!needc(o.c) || C[o.c].alive) return fail(i, "cache slot busy/invalid");
			ct[{o.phase, o.c}].mut_tasks.insert(o.task);
			e.expect_null = o.expect_null;
			if (!o.expect_null) { C[o.c] = MC(); C[o.c].alive = true; C[o.c].flags = o.flags; C[o.c].id = ++idc; }
			break;
		case INIT_CACHE:
			if (!needc(o.c) || !C[o.c].alive) return fail(i, "cache not alive");
			if (o.key < 0 || o.key >= (int)p.keys.size()) return fail(i, "bad key index");
			ct[{o.phase, o.c}].mut_tasks.insert(o.task);
			if (!o.fault.empty()) {
				// an allocation request inside the initialisation fails (ordinals are generated far below the thousands of
				// requests every initialisation makes, so the fault fires): the call throws, the cache counts as not
				// initialised until a later init_cache succeeds, and every VM must be re-bound after that
				if (C[o.c].has_key && C[o.c].key == p.keys[o.key]) return fail(i, "faulted init_cache with the key the cache already has (a no-op cannot fail)");
				C[o.c].has_key = false; C[o.c].failed_key = p.keys[o.key]; C[o.c].has_failed = true; C[o.c].epoch++;
				pr["init_cache_faulted"]++;
				break;
			}
			// after a failed initialisation only the key of the failed attempt (or one never loaded) is generated: what
			// init_cache(old key) does to a cache whose memory a failed attempt has already overwritten is not covered by any listed property
			if (C[o.c].has_failed && !C[o.c].has_key && !(C[o.c].failed_key == p.keys[o.key]) && C[o.c].ever.count(p.keys[o.key])) return fail(i, "init_cache after a failed attempt with a key the cache held before");
			if (!C[o.c].has_key || !(C[o.c].key == p.keys[o.key])) { if (C[o.c].has_key) pr["rekey"]++; C[o.c].has_key = true; C[o.c].key = p.keys[o.key]; C[o.c].epoch++; }
			else pr["init_cache_shortcut"]++;
			C[o.c].ever.insert(p.keys[o.key]); C[o.c].has_failed = false;
			break;
		case RELEASE_CACHE:
			if (!needc(o.c) || !C[o.c].alive) return fail(i, "cache not alive");
			ct[{o.phase, o.c}].mut_tasks.insert(o.task);
			for (int v = 0; v < MAXV; ++v) if (V[v].alive && !(V[v].flags & F_FULL) && V[v].c == o.c && V[v].cid == C[o.c].id) pr["release_cache_with_live_vm"]++;
			C[o.c].alive = false;
			break;
		case ALLOC_DATASET:
			if (!needd(o.d) || D[o.d].alive) return fail(i, "dataset slot busy/invalid");
			dt[{o.phase, o.d}].mut_tasks.insert(o.task);
			e.expect_null = o.expect_null;
			if (!o.expect_null) { D[o.d] = MD(); D[o.d].alive = true; D[o.d].flags = o.flags; D[o.d].id = ++idd; }
			break;
		case RELEASE_DATASET:
			if (!needd(o.d) || !D[o.d].alive) return fail(i, "dataset not alive");
			if (D[o.d].guarded) return fail(i, "dataset released while guarded");
			dt[{o.phase, o.d}].mut_tasks.insert(o.task);
			D[o.d].alive = false;
			break;
		case INIT_DATASET: {
			if (!needd(o.d) || !D[o.d].alive) return fail(i, "dataset not alive");
			if (!needc(o.c) || !C[o.c].alive || !C[o.c].has_key) return fail(i, "cache not initialised");
			if (!(o.start < N && o.count <= N && o.start + o.count <= N)) return fail(i, "range outside the dataset");
			ct[{o.phase, o.c}].ro_tasks.insert(o.task);
			e.key = find_key_index(C[o.c].key); e.cacheflags = C[o.c].flags & (F_JIT | F_LARGE | F_ARGON);
			dt[{o.phase, o.d}].init_ranges.push_back({o.task, {o.start, o.start + o.count}});
			if (o.count) {
				std::vector<Iv> nv;
				uint64_t lo = o.start, hi = o.start + o.count;
				for (auto &iv : D[o.d].iv) {
					if (iv.hi <= lo || iv.lo >= hi) { nv.push_back(iv); continue; }
					if (iv.lo < lo) nv.push_back(Iv{iv.lo, lo, iv.key, iv.cflags});
					if (iv.hi > hi) nv.push_back(Iv{hi, iv.hi, iv.key, iv.cflags});
				}
				nv.push_back(Iv{lo, hi, C[o.c].key, C[o.c].flags & (F_JIT | F_LARGE | F_ARGON)});
				std::sort(nv.begin(), nv.end(), [](const Iv &a, const Iv &b) { return a.lo < b.lo; });
				// merge neighbours with identical provenance
				std::vector<Iv> mv;
				for (auto &iv : nv) {
					if (!mv.empty() && mv.back().hi == iv.lo && mv.back().key == iv.key && mv.back().cflags == iv.cflags) mv.back().hi = iv.hi;
					else mv.push_back(iv);
				}
				D[o.d].iv.swap(mv);
			}
			if (o.count < 4) pr["dataset_branch_lt4"]++; else if (o.count % 4 == 0) pr["dataset_branch_mult4"]++; else pr["dataset_branch_tail"]++;
			if (o.count && o.start + o.count == N) pr["dataset_last_item"]++;
			break;
		}
		case CREATE_VM: {
			if (!needv(o.v) || V[o.v].alive) return fail(i, "vm slot busy/invalid");
			vt[{o.phase, o.v}].insert(o.task);
			MV nv; nv.alive = true; nv.flags = o.flags & ~F_V2; nv.v2 = (o.flags & F_V2) != 0;
			if (o.flags & F_FULL) {
				if (!needd(o.d) || !D[o.d].alive) return fail(i, "FULL_MEM VM needs a live dataset");
				nv.d = o.d; nv.did = D[o.d].id;
				dt[{o.phase, o.d}].ro_tasks.insert(o.task);
				if (o.c >= 0) { if (!needc(o.c) || !C[o.c].alive || !C[o.c].has_key) return fail(i, "cache given but not initialised"); ct[{o.phase, o.c}].ro_tasks.insert(o.task); }
			} else {
				if (!needc(o.c) || !C[o.c].alive || !C[o.c].has_key) return fail(i, "light VM needs an initialised cache");
				if (o.d >= 0) return fail(i, "light VM with dataset argument not generated");
				nv.c = o.c; nv.cid = C[o.c].id; nv.cepoch = C[o.c].epoch;
				ct[{o.phase, o.c}].ro_tasks.insert(o.task);
			}
			e.expect_null = o.expect_null;
			if (!o.expect_null) V[o.v] = nv;
			break;
		}
		case DESTROY_VM:
			if (!needv(o.v) || !V[o.v].alive) return fail(i, "vm not alive");
			vt[{o.phase, o.v}].insert(o.task);
			if (V[o.v].batch) pr["destroy_inside_batch"]++;
			V[o.v].alive = false;
			break;
		case SET_CACHE: {
			if (!needv(o.v) || !V[o.v].alive) return fail(i, "vm not alive");
			if (V[o.v].flags & F_FULL) return fail(i, "set_cache on a FULL_MEM VM not generated");
			if (V[o.v].batch) return fail(i, "op on a VM inside a batch");
			if (!needc(o.c) || !C[o.c].alive || !C[o.c].has_key) return fail(i, "cache not initialised");
			vt[{o.phase, o.v}].insert(o.task);
			ct[{o.phase, o.c}].ro_tasks.insert(o.task);
			MV &v = V[o.v];
			if (v.c == o.c && v.cid == C[o.c].id && v.cepoch == C[o.c].epoch) pr["set_cache_noop"]++;
			else if (v.c >= 0 && (v.c != o.c || v.cid != C[o.c].id)) { pr["set_cache_other_object"]++; if (v.c == o.c) pr["set_cache_after_realloc_same_slot"]++; }
			else pr["set_cache_after_rekey"]++;
			v.c = o.c; v.cid = C[o.c].id; v.cepoch = C[o.c].epoch;
			break;
		}
		case SET_DATASET:
			if (!needv(o.v) || !V[o.v].alive) return fail(i, "vm not alive");
			if (!(V[o.v].flags & F_FULL)) return fail(i, "set_dataset on a light VM not generated");
			if (V[o.v].batch) return fail(i, "op on a VM inside a batch");
			if (!needd(o.d) || !D[o.d].alive) return fail(i, "dataset not alive");
			vt[{o.phase, o.v}].insert(o.task);
			dt[{o.phase, o.d}].ro_tasks.insert(o.task);
			V[o.v].d = o.d; V[o.v].did = D[o.d].id;
			pr["set_dataset"]++;
			break;
		case SET_V2: case CLEAR_V2:
			if (!needv(o.v) || !V[o.v].alive) return fail(i, "vm not alive");
			if (V[o.v].batch) return fail(i, "op on a VM inside a batch");
			vt[{o.phase, o.v}].insert(o.task);
			if (V[o.v].v2 != (o.kind == SET_V2)) pr["version_switch"]++;
			V[o.v].v2 = (o.kind == SET_V2);
			break;
		case HASH: case FIRST: case NEXT: case LAST: {
			if (!needv(o.v) || !V[o.v].alive) return fail(i, "vm not alive");
			MV &v = V[o.v];
			vt[{o.phase, o.v}].insert(o.task);
			if (o.kind != LAST && (o.input < 0 || o.input >= (int)p.inputs.size())) return fail(i, "bad input index");
			// a single-call hash or a new first() on a VM with a batch in flight is legal (nothing in randomx.h
			// forbids abandoning a batch); it abandons the pending hash, whose result is then never asked for
			if ((o.kind == HASH || o.kind == FIRST) && v.batch) { pr["batch_abandoned"]++; v.batch = false; v.pending = -1; }
			if ((o.kind == NEXT || o.kind == LAST) && !v.batch) return fail(i, "next/last without first");
			std::string why = hashable(v, e, o.phase, o.task);
			if (!why.empty()) return fail(i, why);
			if (o.kind == HASH) { e.has_digest = true; e.input = o.input; e.is_hash_call = true; pr["hash"]++; }
			else if (o.kind == FIRST) { v.batch = true; v.pending = o.input; }
			else if (o.kind == NEXT) { e.has_digest = true; e.input = v.pending; v.pending = o.input; pr["batch_next"]++; }
			else { e.has_digest = true; e.input = v.pending; v.pending = -1; v.batch = false; pr["batch_last"]++; }
			if (o.env >= 0) pr["env_attached"]++;
			break;
		}
		case COMMIT:
			if (o.input < 0 || o.input >= (int)p.inputs.size() || o.key < 0 || o.key >= (int)p.keys.size()) return fail(i, "bad commit operands");
			if (p.keys[o.key].len != 32) return fail(i, "commit hash operand must be 32 bytes");
			break;
		case DS_GUARD:
			if (concurrent || o.task != 0) return fail(i, "harness op inside a concurrent phase");
			if (!needd(o.d) || !D[o.d].alive) return fail(i, "dataset not alive");
			if (D[o.d].guarded) return fail(i, "dataset already guarded");
			D[o.d].guarded = true; D[o.d].iv.clear();
			break;
		case DS_CHECK:
			if (concurrent || o.task != 0) return fail(i, "harness op inside a concurrent phase");
			if (!needd(o.d) || !D[o.d].alive || !D[o.d].guarded) return fail(i, "dataset not guarded");
			D[o.d].guarded = false;
			break;
		case CACHE_CHECK:
			if (!needc(o.c) || !C[o.c].alive || !C[o.c].has_key) return fail(i, "cache not initialised");
			ct[{o.phase, o.c}].ro_tasks.insert(o.task);
			e.key = find_key_index(C[o.c].key); e.cacheflags = C[o.c].flags & (F_JIT | F_LARGE | F_ARGON);
			break;
		case RO_GUARD: case RO_LIFT: case MAPS_AUDIT:
			if (concurrent || o.task != 0) return fail(i, "harness op inside a concurrent phase");
			break;
		default: return fail(i, "unknown op");
		}
	}
	for (int d = 0; d < MAXD; ++d) if (D[d].alive && D[d].guarded) { A.valid = false; A.error = "dataset left guarded"; return A; }

	// sharing discipline in concurrent phases
	for (auto &pt : phase_tasks) {
		if (pt.second.size() <= 1) continue;
		int ph = pt.first;
		if (pt.second.count(0)) { A.valid = false; A.error = "task 0 inside a concurrent phase"; return A; }
		for (auto &kv : vt) if (kv.first.first == ph && kv.second.size() > 1) { A.valid = false; A.error = "VM shared between tasks in phase " + std::to_string(ph); return A; }
		for (auto &kv : ct) if (kv.first.first == ph) {
			std::set<int> all = kv.second.ro_tasks; all.insert(kv.second.mut_tasks.begin(), kv.second.mut_tasks.end());
			if (all.size() > 1 && !kv.second.mut_tasks.empty()) { A.valid = false; A.error = "cache mutated while shared in phase " + std::to_string(ph); return A; }
			if (all.size() > 1) A.probes["shared_cache_phase"]++;
		}
		for (auto &kv : dt) if (kv.first.first == ph) {
			const Touch &t = kv.second;
			std::set<int> all = t.ro_tasks; all.insert(t.mut_tasks.begin(), t.mut_tasks.end()); all.insert(t.read_tasks.begin(), t.read_tasks.end());
			std::set<int> writers; for (auto &r : t.init_ranges) writers.insert(r.first);
			all.insert(writers.begin(), writers.end());
			if (all.size() > 1 && !t.mut_tasks.empty()) { A.valid = false; A.error = "dataset allocated/released while shared in phase " + std::to_string(ph); return A; }
			if (!writers.empty()) {
				for (int rt_ : t.read_tasks) if (writers.size() > 1 || !writers.count(rt_)) { A.valid = false; A.error = "dataset hashed while another task initialises it in phase " + std::to_string(ph); return A; }
				for (size_t a = 0; a < t.init_ranges.size(); ++a) for (size_t b = a + 1; b < t.init_ranges.size(); ++b) {
					auto &x = t.init_ranges[a], &y = t.init_ranges[b];
					if (x.first == y.first) continue;
					if (x.second.first < y.second.second && y.second.first < x.second.second) { A.valid = false; A.error = "overlapping concurrent init_dataset ranges in phase " + std::to_string(ph); return A; }
				}
				if (writers.size() > 1) A.probes["concurrent_dataset_init_phase"]++;
			}
			if (t.read_tasks.size() > 1) A.probes["shared_dataset_phase"]++;
		}
	}
	A.valid = true;
	return A;
}

} // namespace ops
