// rxsim entry point: worker (generate + run plans for a property) and replay (run one explicit plan).
#include "exec.hpp"
#include "gen.hpp"
#include "../model/model.hpp"
#include <stdio.h>
#include <stdlib.h>
#include <string.h>
#include <string>
#include <fstream>
#include <sstream>
#include <set>
#include <time.h>
#include <unistd.h>
#include <vector>

static double now_s() { struct timespec ts; clock_gettime(CLOCK_MONOTONIC, &ts); return ts.tv_sec + ts.tv_nsec * 1e-9; }

static const char *arg_s(int argc, char **argv, const char *name, const char *def) {
	for (int i = 1; i + 1 < argc; ++i) if (!strcmp(argv[i], name)) return argv[i + 1];
	return def;
}
static bool arg_flag(int argc, char **argv, const char *name) {
	for (int i = 1; i < argc; ++i) if (!strcmp(argv[i], name)) return true;
	return false;
}

static int cmd_replay(int argc, char **argv) {
	const char *path = arg_s(argc, argv, "--file", nullptr);
	if (!path) { fprintf(stderr, "replay: --file needed\n"); return 2; }
	std::ifstream f(path);
	if (!f) { fprintf(stderr, "replay: cannot open %s\n", path); return 2; }
	std::stringstream ss; ss << f.rdbuf();
	rt::JVal j; std::string err;
	if (!rt::json_parse(ss.str(), j, err)) { fprintf(stderr, "replay: bad json: %s\n", err.c_str()); return 2; }
	const rt::JVal *pj = j.get("plan") ? j.get("plan") : &j;
	std::string prop = pj->str("property");
	// "prelude": plans that ran earlier in the same process when the violation was found. A violation that needs them
	// (library state that outlives the objects: a static, a thread_local) is replayed as the whole process history.
	const rt::JVal *prelude = pj->get("prelude");
	if (prop == "C11") {
		if (prelude) for (auto &e : prelude->a) gen::c11_replay(e, false, true);
		return gen::c11_replay(*pj, arg_flag(argc, argv, "--trace"), false);
	}
	ops::Plan plan;
	if (!ops::plan_from_json(*pj, plan, err)) { fprintf(stderr, "replay: %s\n", err.c_str()); return 2; }
	if (plan.fullmem_model) exec::enable_shipped_full_mem_model();
	// a violation inside the per-process warm-up history itself is replayed as what it is: the first history of a process
	const bool is_warmup_plan = plan.property == "warmup";
	// the process history of a worker that started cold begins with its cold plan: no warm-up then either
	bool cold_prelude = false;
	if (prelude && !prelude->a.empty()) { if (auto c = prelude->a[0].get("cold")) cold_prelude = c->t == rt::JVal::BOOL && c->b; }
	if (!is_warmup_plan && !plan.cold && !cold_prelude) { gen::Context wgc; wgc.property = plan.property; gen::init_context(wgc); exec::Options wopt; wopt.run_index = ~(uint64_t)0; exec::execute(gen::warmup_plan(wgc, plan.warmup_seed), wopt); }
	if (prelude) for (auto &e : prelude->a) {
		ops::Plan pp; std::string perr;
		if (!ops::plan_from_json(e, pp, perr)) { fprintf(stderr, "replay: prelude: %s\n", perr.c_str()); return 2; }
		exec::Options po; po.run_index = 0; po.replay = pp.replay;
		exec::execute(pp, po);
	}
	exec::Options opt; opt.replay = true; opt.trace = arg_flag(argc, argv, "--trace");
	if (is_warmup_plan) { opt.replay = plan.replay; opt.run_index = ~(uint64_t)0; }
	exec::Report rep = exec::execute(plan, opt);
	printf("%s\n", exec::report_to_json(rep, plan, arg_flag(argc, argv, "--with-plan")).c_str());
	fflush(stdout);
	return 0;
}

// prints the plan a worker generates for (property, tier, mode, seed, index) - the driver rebuilds the history of a
// worker process from it
static int cmd_genplan(int argc, char **argv) {
	std::string prop = arg_s(argc, argv, "--property", "C03");
	std::string tier = arg_s(argc, argv, "--tier", "quick");
	std::string mode = arg_s(argc, argv, "--mode", "");
	uint64_t seed = strtoull(arg_s(argc, argv, "--seed", "1"), nullptr, 10);
	uint64_t idx = strtoull(arg_s(argc, argv, "--index", "0"), nullptr, 10);
	uint64_t run_seed = rt::mix64(rt::mix_str(seed, prop.c_str()), idx);
	if (prop == "C11") { printf("%s\n", gen::c11_genplan(run_seed, idx, tier, mode).c_str()); return 0; }
	gen::Context gc; gc.property = prop; gc.tier = tier; gc.mode = mode;
	gen::init_context(gc);
	ops::Plan plan = gen::generate(gc, run_seed, idx);
	printf("%s\n", ops::plan_to_json(plan).c_str());
	return 0;
}

// generates plans and checks them against the contract model without executing them (the generators must never leave the
// documented contract; this covers far more plans than a run budget does)
static int cmd_lint(int argc, char **argv) {
	std::string prop = arg_s(argc, argv, "--property", "C03");
	std::string tier = arg_s(argc, argv, "--tier", "quick");
	std::string mode = arg_s(argc, argv, "--mode", "");
	uint64_t seed = strtoull(arg_s(argc, argv, "--seed", "1"), nullptr, 10);
	uint64_t from = strtoull(arg_s(argc, argv, "--from", "0"), nullptr, 10);
	uint64_t to = strtoull(arg_s(argc, argv, "--to", "1000"), nullptr, 10);
	gen::Context gc; gc.property = prop; gc.tier = tier; gc.mode = mode;
	gen::init_context(gc);
	uint64_t bad = 0, n = 0, N = exec::dataset_items();
	for (uint64_t idx = from; idx < to; ++idx, ++n) {
		ops::Plan plan = gen::generate(gc, rt::mix64(rt::mix_str(seed, prop.c_str()), idx), idx);
		ops::Annotated a = ops::annotate(plan, N);
		if (!a.valid) { if (++bad <= 10) printf("{\"type\":\"invalid\",\"index\":%llu,\"reason\":\"%s\"}\n", (unsigned long long)idx, rt::json_escape(a.error).c_str()); }
	}
	printf("{\"type\":\"lint\",\"property\":\"%s\",\"tier\":\"%s\",\"mode\":\"%s\",\"plans\":%llu,\"invalid\":%llu}\n", prop.c_str(), tier.c_str(), mode.c_str(), (unsigned long long)n, (unsigned long long)bad);
	return bad ? 1 : 0;
}

static int cmd_worker(int argc, char **argv) {
	std::string prop = arg_s(argc, argv, "--property", "C03");
	std::string tier = arg_s(argc, argv, "--tier", "quick");
	uint64_t seed = strtoull(arg_s(argc, argv, "--seed", "1"), nullptr, 10);
	uint64_t from = strtoull(arg_s(argc, argv, "--from", "0"), nullptr, 10);
	uint64_t to = strtoull(arg_s(argc, argv, "--to", "1"), nullptr, 10);
	uint64_t step = strtoull(arg_s(argc, argv, "--step", "1"), nullptr, 10);
	double budget = atof(arg_s(argc, argv, "--budget-s", "0"));
	uint64_t samples = strtoull(arg_s(argc, argv, "--samples", "2"), nullptr, 10);
	std::string mode = arg_s(argc, argv, "--mode", "");
	bool trace = arg_flag(argc, argv, "--trace");
	double t0 = now_s();
	printf("{\"type\":\"hello\",\"config\":\"%s\",\"variant\":\"%s\",\"dataset_items\":%llu,\"property\":\"%s\"}\n", exec::config_name(), exec::variant_name(),
	       (unsigned long long)exec::dataset_items(), prop.c_str());
	fflush(stdout);
	if (prop == "C11") return gen::c11_worker(seed, from, to, step, budget, samples, tier, mode);
	if (mode == "fullshipped") exec::enable_shipped_full_mem_model();
	gen::Context gc; gc.property = prop; gc.tier = tier; gc.mode = mode;
	gen::init_context(gc);
	// C13: the first calls of this process (the warm-up history) are made under seeded environments as well
	const uint64_t warmup_seed = prop == "C13" ? (rt::mix64(seed ^ 0xC13, from) | 1) : 0;
	const bool enum_cold = mode == "enum-cold"; // one enumeration item per process: this process runs exactly one plan, cold, and re-executes itself for the next
	const bool cold = (arg_flag(argc, argv, "--cold") && mode != "enum") || enum_cold; // no warm-up: the first history of this process runs cold (see ops::Plan::cold)
	// a cold process must not make a library call before its first history, but its plans must be the ones a warm process would
	// generate for the same index: the request counts the fault generators use come from a forked child
	if (cold && (prop == "C15" || prop == "C16")) gen::prime_request_counts_in_child(gc);
	if (!cold) { // warm-up (not counted; see gen::warmup_plan)
		exec::Options wopt; wopt.run_index = ~(uint64_t)0;
		exec::Report wr = exec::execute(gen::warmup_plan(gc, warmup_seed), wopt);
		printf("{\"type\":\"warmup\",\"ops\":%d,\"invalid\":%s,\"violations\":%zu}\n", wr.ops_executed, wr.invalid ? "true" : "false", wr.violations.size());
		fflush(stdout);
	}
	if (mode == "enum" || enum_cold) { uint64_t n = gen::enum_size(gc); if (to > n) to = n; printf("{\"type\":\"enum\",\"size\":%llu}\n", (unsigned long long)n); fflush(stdout); }
	uint64_t done = 0;
	for (uint64_t idx = from; idx < to; idx += step) {
		if (budget > 0 && done > 0 && now_s() - t0 > budget) break; // every worker completes at least one run however slow the machine
		uint64_t run_seed = rt::mix64(rt::mix_str(seed, prop.c_str()), idx);
		double t1 = now_s();
		gc.no_dry_run = cold && done == 0 && !(prop == "C15" || prop == "C16");
		ops::Plan plan = gen::generate(gc, run_seed, idx);
		plan.warmup_seed = cold ? 0 : warmup_seed;
		if (cold && done == 0) plan.cold = true;
		double t2 = now_s();
		exec::Options opt; opt.run_index = idx; opt.trace = trace;
		exec::Report rep = exec::execute(plan, opt);
		double t3 = now_s();
		// the driver needs a plan per distinct signature, not per violating run: after 24 violating runs of this
		// worker only new-looking ones carry their plan (a broken build can violate in every run)
		static int plans_emitted = 0; static std::set<std::string> seen_sigs;
		bool fresh_sig = false;
		for (auto &v : rep.violations) if (seen_sigs.insert(v.cls + "|" + v.sig).second) fresh_sig = true;
		bool with_plan = done < samples || rep.invalid || (!rep.violations.empty() && (fresh_sig || plans_emitted < 24));
		if (with_plan && !rep.violations.empty()) ++plans_emitted;
		std::string line = exec::report_to_json(rep, plan, with_plan);
		char tb[96]; snprintf(tb, sizeof tb, ",\"gen_us\":%ld,\"exec_us\":%ld}", (long)((t2 - t1) * 1e6), (long)((t3 - t2) * 1e6));
		line.pop_back(); line += tb;
		printf("%s\n", line.c_str());
		fflush(stdout);
		++done;
		if (enum_cold && idx + step < to) {
			// next item in a fresh process image (same pid, same pipe): re-execute with --from advanced and the remaining budget
			double left = budget > 0 ? budget - (now_s() - t0) : 0;
			if (budget > 0 && left <= 0) break;
			std::vector<std::string> args(argv, argv + argc);
			char nb[32]; snprintf(nb, sizeof nb, "%llu", (unsigned long long)(idx + step));
			char bb[32]; snprintf(bb, sizeof bb, "%.2f", left);
			for (size_t i = 0; i + 1 < args.size(); ++i) { if (args[i] == "--from") args[i + 1] = nb; if (args[i] == "--budget-s") args[i + 1] = bb; }
			std::vector<char *> av; for (auto &a : args) av.push_back((char *)a.c_str()); av.push_back(nullptr);
			fflush(stdout);
			execv("/proc/self/exe", av.data());
			break;
		}
		if (rep.violations.size() >= 48) break; // a flood of violations (e.g. a race on every access): this worker has shown enough
	}
	uint64_t h, m, ci; model::memo_stats(h, m, ci);
	printf("{\"type\":\"bye\",\"runs\":%llu,\"wall_s\":%.3f,\"model_hits\":%llu,\"model_misses\":%llu,\"model_cache_inits\":%llu}\n", (unsigned long long)done, now_s() - t0,
	       (unsigned long long)h, (unsigned long long)m, (unsigned long long)ci);
	fflush(stdout);
	return 0;
}

int main(int argc, char **argv) {
	if (argc < 2) { fprintf(stderr, "usage: rxsim worker|replay|info ...\n"); return 2; }
	exec::process_setup(argv[0]);
	std::string cmd = argv[1];
	int rc = 2;
	if (cmd == "replay") rc = cmd_replay(argc, argv);
	else if (cmd == "worker") rc = cmd_worker(argc, argv);
	else if (cmd == "genplan") rc = cmd_genplan(argc, argv);
	else if (cmd == "lint") rc = cmd_lint(argc, argv);
	else if (cmd == "info") { printf("{\"config\":\"%s\",\"variant\":\"%s\",\"dataset_items\":%llu}\n", exec::config_name(), exec::variant_name(), (unsigned long long)exec::dataset_items()); rc = 0; }
	fflush(stdout);
	seam::tsan_ignore_end();
	_exit(rc); // model objects are intentionally not torn down
}
