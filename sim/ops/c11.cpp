// C11: simulated stream reader over the bundled BLAKE2b streaming state machine, checked operation by
// operation against the RFC 7693 model. A plan is explicit: streams (parameters + deterministic message)
// and steps (which state is fed how many bytes next, finals, misuse calls).
#include "gen.hpp"
#include "exec.hpp"
#include "../model/model.hpp"
#include "randomx.h"
#include "blake2/blake2.h"
#include "../seams/seams.hpp"
#ifdef RXSIM_TSAN
#include "../seams/tsan_glue.hpp"
#endif
#include <stdio.h>
#include <string.h>
#include <time.h>
#include <algorithm>
#include <sys/mman.h>

namespace gen {

namespace {

double now_s() { struct timespec ts; clock_gettime(CLOCK_MONOTONIC, &ts); return ts.tv_sec + ts.tv_nsec * 1e-9; }

struct Stream { uint32_t outlen = 32, keylen = 0; uint64_t keyseed = 0, msglen = 0, msgseed = 0; bool zero = false; }; // zero: the message is all zero bytes (lets one update exceed 4 GiB without memory)
enum StepKind { S_UPDATE, S_FINAL, S_FINAL_SHORT, S_ONESHOT, S_BAD_ONESHOT, S_BAD_INIT, S_BAD_INIT_KEY, S_COMMIT, S_MOVE, S_KINDS };
static const char *SNAMES[S_KINDS] = {"update", "final", "final_short", "oneshot", "bad_oneshot", "bad_init", "bad_init_key", "commit", "move"};
struct Step { int kind = 0; int s = 0; uint64_t n = 0; uint32_t a = 0, b = 0; };
struct Plan11 {
	uint64_t seed = 0; std::vector<Stream> streams; std::vector<Step> steps;
	// threads > 0: the streams are owned by that many simulated caller threads (stream s belongs to task 1 + s % threads,
	// a step without a stream to task 1 + index % threads); each task performs its steps in plan order, the seeded
	// scheduler switches between tasks at step boundaries
	int threads = 0; uint32_t p_num = 1, p_den = 2; bool replay = false; std::vector<rt::Switch> sched;
};

// message byte generator: byte i of stream = f(seed, i)
inline void msg_bytes(uint64_t seed, uint64_t off, uint8_t *out, size_t n) {
	size_t i = 0;
	while (i < n) {
		uint64_t blk = (off + i) / 8, x = seed * 0x9e3779b97f4a7c15ULL + blk + 11;
		uint64_t w = rt::splitmix64(x);
		for (unsigned j = (unsigned)((off + i) % 8); j < 8 && i < n; ++j, ++i) out[i] = (uint8_t)(w >> (8 * j));
	}
}

std::string to_json(const Plan11 &p) {
	std::string s = "{\"property\":\"C11\",\"seed\":" + std::to_string(p.seed) + ",\"streams\":[";
	char b[200];
	for (size_t i = 0; i < p.streams.size(); ++i) {
		const Stream &t = p.streams[i];
		snprintf(b, sizeof b, "%s{\"outlen\":%u,\"keylen\":%u,\"keyseed\":%llu,\"msglen\":%llu,\"msgseed\":%llu,\"zero\":%d}", i ? "," : "", t.outlen, t.keylen, (unsigned long long)t.keyseed, (unsigned long long)t.msglen, (unsigned long long)t.msgseed, t.zero ? 1 : 0);
		s += b;
	}
	s += "],\"steps\":[";
	for (size_t i = 0; i < p.steps.size(); ++i) {
		const Step &t = p.steps[i];
		snprintf(b, sizeof b, "%s{\"k\":\"%s\",\"s\":%d,\"n\":%llu,\"a\":%u,\"b\":%u}", i ? "," : "", SNAMES[t.kind], t.s, (unsigned long long)t.n, t.a, t.b);
		s += b;
	}
	s += "]";
	if (p.threads) {
		s += ",\"threads\":" + std::to_string(p.threads) + ",\"p_num\":" + std::to_string(p.p_num) + ",\"p_den\":" + std::to_string(p.p_den) + ",\"replay\":" + (p.replay ? "true" : "false") + ",\"sched\":[";
		for (size_t i = 0; i < p.sched.size(); ++i) { snprintf(b, sizeof b, "%s[%llu,%d]", i ? "," : "", (unsigned long long)p.sched[i].step, p.sched[i].task); s += b; }
		s += "]";
	}
	s += "}";
	return s;
}
bool from_json(const rt::JVal &j, Plan11 &p) {
	p = Plan11(); p.seed = j.u64("seed");
	if (auto a = j.get("streams")) for (auto &e : a->a) { Stream t; t.outlen = (uint32_t)e.num("outlen"); t.keylen = (uint32_t)e.num("keylen"); t.keyseed = e.u64("keyseed"); t.msglen = e.u64("msglen"); t.msgseed = e.u64("msgseed"); t.zero = e.num("zero") != 0; p.streams.push_back(t); }
	if (auto a = j.get("steps")) for (auto &e : a->a) {
		Step t; std::string k = e.str("k"); t.kind = -1;
		for (int i = 0; i < S_KINDS; ++i) if (k == SNAMES[i]) t.kind = i;
		if (t.kind < 0) return false;
		t.s = (int)e.num("s"); t.n = e.u64("n"); t.a = (uint32_t)e.num("a"); t.b = (uint32_t)e.num("b");
		p.steps.push_back(t);
	}
	p.threads = (int)j.num("threads"); p.p_num = (uint32_t)j.num("p_num", 1); p.p_den = (uint32_t)j.num("p_den", 2);
	if (auto r = j.get("replay")) p.replay = r->t == rt::JVal::BOOL && r->b;
	if (auto a = j.get("sched")) for (auto &e : a->a) if (e.a.size() == 2) p.sched.push_back(rt::Switch{(uint64_t)e.a[0].i, (int)e.a[1].i});
	return true;
}

struct Viol { std::string cls, sig, detail; int step; };
static __thread seam::OpCtx *g_ctx = nullptr;
#define LIB(call) ([&]() { seam::lib_enter(g_ctx); auto lib_r_ = (call); seam::lib_exit(); return lib_r_; }())
#define LIBV(call) do { seam::lib_enter(g_ctx); try { call; } catch (const std::exception &) { lib_threw_ = true; } seam::lib_exit(); } while (0)
struct Result { std::vector<Viol> v; uint64_t fp = 0x11; uint64_t bytes = 0; uint64_t moves = 0, updates = 0, finals = 0, misuse = 0, early_finals = 0, zero_chunks = 0, interleaved = 0; bool invalid = false; std::vector<rt::Switch> recorded; uint64_t switches = 0, ilv = 0; };

// an invalid output length: just above the limit, and values whose low 8 / 16 / 32 bits look valid
size_t bad_outlen(uint32_t r) {
	switch (r % 8) {
	case 0: return 65 + (r >> 3) % 8;
	case 1: return 128 + (r >> 3) % 129;
	case 2: return 256 + 1 + (r >> 3) % 64;            // low byte 1..64
	case 3: return 512 + 1 + (r >> 3) % 64;
	case 4: return 65536 + 1 + (r >> 3) % 64;          // low 16 bits 1..64
	case 5: return ((size_t)1 << 32) + 1 + (r >> 3) % 64; // low 32 bits 1..64
	case 6: return (size_t)0 - 1 - (r >> 3) % 64;
	default: return 65 + (r >> 3) % 1000;
	}
}
// a message chunk placed so that it ends at an inaccessible page (an over-read of one byte faults); one slot per simulated thread
static uint8_t *edge_place(int task, size_t len) {
	static uint8_t *base[17] = {nullptr};
	const size_t PG = 4096, DATA = 4 * PG;
	uint8_t *&b = base[task >= 0 && task <= 16 ? task : 0];
	if (!b) { void *m = mmap(nullptr, DATA + PG, PROT_READ | PROT_WRITE, MAP_PRIVATE | MAP_ANONYMOUS, -1, 0); if (m == MAP_FAILED) return nullptr; mprotect((uint8_t *)m + DATA, PG, PROT_NONE); b = (uint8_t *)m; }
	return len <= DATA ? b + DATA - len : nullptr;
}
static const uint8_t CANARY = 0xC7;
bool canary_ok(const uint8_t *p, size_t n) { for (size_t i = 0; i < n; ++i) if (p[i] != CANARY) return false; return true; }

Result run(const Plan11 &p) {
	Result R;
	size_t ns = p.streams.size();
	// the caller owns the state object: it is a plain struct and may be copied or moved between calls (a container that grows,
	// a saved midstate). S_MOVE relocates it (byte copy to other storage, old storage overwritten).
	struct Live { blake2b_state store[2]; int cur = 0; blake2b_state &S() { return store[cur]; } model::B2 ref; bool inited = false, valid = false, finalized = false; uint64_t fed = 0; std::vector<uint8_t> key; };
	std::vector<Live> L(ns);
	std::vector<uint8_t> chunk;
	int last_stream = -1;
	auto fail = [&](const char *cls, const std::string &sig, const std::string &detail, int step) { R.v.push_back(Viol{cls, sig, detail, step}); };
	auto ensure_init = [&](int s, int step) {
		Live &l = L[s]; const Stream &t = p.streams[s];
		if (l.inited) return;
		l.inited = true;
		l.key.resize(t.keylen); if (t.keylen) msg_bytes(t.keyseed, 0, l.key.data(), t.keylen);
		memset(&l.S(), 0x5A, sizeof l.S());
		int rc = LIB(t.keylen ? blake2b_init_key(&l.S(), t.outlen, l.key.data(), t.keylen) : blake2b_init(&l.S(), t.outlen));
		bool ok = l.ref.init(t.outlen, t.keylen ? l.key.data() : nullptr, t.keylen);
		l.valid = ok;
		if ((rc == 0) != ok) fail("B2_INIT_STATUS", std::string("init returned ") + (rc == 0 ? "0" : "-1") + " for " + (ok ? "valid" : "invalid") + " parameters", "outlen=" + std::to_string(t.outlen) + " keylen=" + std::to_string(t.keylen), step);
		R.fp = rt::mix64(R.fp, (uint64_t)rc + 7);
	};
	for (auto &st : p.steps) if ((st.kind == S_UPDATE || st.kind == S_FINAL || st.kind == S_FINAL_SHORT || st.kind == S_ONESHOT) && (st.s < 0 || st.s >= (int)ns)) { R.invalid = true; return R; }
	auto do_step = [&](size_t si) {
		const Step &st = p.steps[si];
		seam::OpCtx ctx; ctx.task = rt::sched_current_task(); ctx.op_index = (int)si; ctx.op_name = SNAMES[st.kind];
		rt::sched_yield_point(rt::SITE_OP_BEGIN);
		g_ctx = &ctx; // LIB(call): library scope (and, in the tsan variant, visibility to TSan) only around the library call itself
		switch (st.kind) {
		case S_UPDATE: {
			ensure_init(st.s, (int)si);
			Live &l = L[st.s]; const Stream &t = p.streams[st.s];
			uint64_t n = std::min<uint64_t>(st.n, t.msglen - std::min(t.msglen, l.fed));
			const uint8_t *data;
			if (t.zero) { // all-zero message served from one untouched anonymous mapping (the kernel's zero page)
				static uint8_t *zeros = nullptr; static const uint64_t ZLEN = ((uint64_t)5 << 30);
				if (!zeros) { void *m = mmap(nullptr, ZLEN, PROT_READ, MAP_PRIVATE | MAP_ANONYMOUS | MAP_NORESERVE, -1, 0); if (m == MAP_FAILED) { R.invalid = true; return; } zeros = (uint8_t *)m; }
				if (n > ZLEN) n = ZLEN;
				data = zeros;
			} else {
				if (n > ((uint64_t)64 << 20)) n = (uint64_t)64 << 20;
				chunk.resize((size_t)n + 1);
				msg_bytes(t.msgseed, l.fed, chunk.data(), (size_t)n);
				data = chunk.data();
				if (n && si % 3 != 0) { uint8_t *e = edge_place(rt::sched_current_task(), (size_t)n); if (e) { memcpy(e, chunk.data(), (size_t)n); data = e; } }
			}
			if (n == 0 && (st.a & 1)) data = nullptr; // an empty chunk may be passed as (NULL, 0)
			int rc = LIB(blake2b_update(&l.S(), data, (size_t)n));
			int want = (!l.valid || l.finalized) && n > 0 ? -1 : 0;
			// a zero-length update on a finished or rejected state: the property does not say; accept 0 and -1
			if (n == 0 && (!l.valid || l.finalized) && (rc == 0 || rc == -1)) want = rc;
			if (rc != want) fail("B2_UPDATE_STATUS", std::string("update returned ") + std::to_string(rc) + (l.finalized ? " after final" : !l.valid ? " on invalid state" : ""), "n=" + std::to_string(n), (int)si);
			if (l.valid && !l.finalized && n) { l.ref.update(data, (size_t)n); l.fed += n; }
			if (l.finalized || !l.valid) ++R.misuse;
			++R.updates; R.bytes += n; if (n == 0) ++R.zero_chunks;
			if (last_stream >= 0 && last_stream != st.s) ++R.interleaved;
			last_stream = st.s;
			R.fp = rt::mix64(R.fp, n * 4 + (uint64_t)(rc & 3));
			break;
		}
		case S_FINAL: case S_FINAL_SHORT: {
			ensure_init(st.s, (int)si);
			Live &l = L[st.s]; const Stream &t = p.streams[st.s];
			uint8_t out[96]; memset(out, CANARY, sizeof out);
			size_t olen = t.outlen;
			bool shortbuf = st.kind == S_FINAL_SHORT && t.outlen > 1;
			if (shortbuf) olen = t.outlen - 1 - (st.a % t.outlen) % (t.outlen - 1);
			if (olen == 0) olen = 1, shortbuf = t.outlen > 1;
			int rc = LIB(blake2b_final(&l.S(), out + 16, olen));
			bool expect_ok = l.valid && !l.finalized && !shortbuf;
			if ((rc == 0) != expect_ok) fail("B2_FINAL_STATUS", std::string("final returned ") + std::to_string(rc) + (l.finalized ? " after final" : shortbuf ? " with short buffer" : !l.valid ? " on invalid state" : ""), "", (int)si);
			if (expect_ok) {
				uint8_t want[64]; model::B2 copy = l.ref; copy.final(want);
				if (rc == 0 && memcmp(out + 16, want, t.outlen) != 0) {
					bool early = l.fed < t.msglen;
					fail("B2_DIGEST", std::string("streaming digest != RFC 7693") + (t.keylen ? " keyed" : "") + (early ? " (prefix)" : ""), "outlen=" + std::to_string(t.outlen) + " fed=" + std::to_string(l.fed), (int)si);
				}
				if (!canary_ok(out, 16) || !canary_ok(out + 16 + t.outlen, sizeof out - 16 - t.outlen)) fail("B2_OUTPUT_OVERRUN", "final wrote outside outlen bytes", "", (int)si);
				if (l.fed < t.msglen) ++R.early_finals;
				l.finalized = true; ++R.finals;
			} else {
				if (!canary_ok(out, sizeof out)) fail("B2_WRITE_ON_REJECT", "final wrote output although it returned an error", "", (int)si);
				++R.misuse;
			}
			R.fp = rt::mix64(R.fp, rt::fnv64(out, sizeof out));
			break;
		}
		case S_ONESHOT: {
			const Stream &t = p.streams[st.s];
			if (t.msglen > ((uint64_t)4 << 20)) break;
			const bool null_msg = t.msglen == 0 && (st.a & 1); // the empty message as (NULL, 0)
			std::vector<uint8_t> msg((size_t)t.msglen + 1), key(t.keylen + 1);
			msg_bytes(t.msgseed, 0, msg.data(), (size_t)t.msglen);
			if (t.keylen) msg_bytes(t.keyseed, 0, key.data(), t.keylen);
			uint8_t out[96]; memset(out, CANARY, sizeof out);
			int rc = LIB(blake2b(out + 16, t.outlen, null_msg ? nullptr : msg.data(), (size_t)t.msglen, t.keylen ? key.data() : nullptr, t.keylen));
			uint8_t want[64];
			bool ok = model::blake2b_ref(want, t.outlen, msg.data(), (size_t)t.msglen, t.keylen ? key.data() : nullptr, t.keylen);
			if ((rc == 0) != ok) fail("B2_ONESHOT_STATUS", "blake2b() status differs from model", "", (int)si);
			else if (ok && memcmp(out + 16, want, t.outlen) != 0) fail("B2_DIGEST", std::string("single-call digest != RFC 7693") + (t.keylen ? " keyed" : ""), "outlen=" + std::to_string(t.outlen) + " len=" + std::to_string(t.msglen), (int)si);
			if (ok && (!canary_ok(out, 16) || !canary_ok(out + 16 + t.outlen, sizeof out - 16 - t.outlen))) fail("B2_OUTPUT_OVERRUN", "blake2b() wrote outside outlen bytes", "", (int)si);
			R.bytes += t.msglen;
			R.fp = rt::mix64(R.fp, rt::fnv64(out, sizeof out));
			break;
		}
		case S_BAD_ONESHOT: {
			// a: which parameter is invalid
			uint8_t out[96]; memset(out, CANARY, sizeof out);
			uint8_t msg[16] = {1, 2, 3}, key[80] = {9};
			int rc = 0;
			switch (st.a % 6) {
			case 0: rc = LIB(blake2b(out + 16, 0, msg, 3, nullptr, 0)); break;
			case 1: rc = LIB(blake2b(out + 16, bad_outlen(st.b), msg, 3, nullptr, 0)); break;
			case 2: rc = LIB(blake2b(out + 16, 1 + st.b % 64, msg, 3, key, 65 + (st.b % 8))); break;
			case 3: rc = LIB(blake2b(out + 16, 1 + st.b % 64, msg, 3, nullptr, 1 + st.b % 64)); break;
			case 4: rc = LIB(blake2b(out + 16, 1 + st.b % 64, nullptr, 1 + st.b % 100, nullptr, 0)); break;
			case 5: rc = LIB(blake2b(nullptr, 1 + st.b % 64, msg, 3, nullptr, 0)); break;
			}
			if (rc == 0) fail("B2_ACCEPTED_INVALID", "blake2b() accepted invalid parameters case=" + std::to_string(st.a % 6), "", (int)si);
			if (!canary_ok(out, sizeof out)) fail("B2_WRITE_ON_REJECT", "blake2b() wrote output although parameters are invalid case=" + std::to_string(st.a % 6), "", (int)si);
			++R.misuse;
			R.fp = rt::mix64(R.fp, (uint64_t)rc + 100);
			break;
		}
		case S_BAD_INIT: case S_BAD_INIT_KEY: {
			blake2b_state S; memset(&S, 0x5A, sizeof S);
			uint8_t key[80] = {7};
			int rc;
			if (st.kind == S_BAD_INIT) rc = LIB(blake2b_init(&S, (st.a & 7) == 0 ? 0 : bad_outlen(st.b)));
			else {
				switch (st.a % 4) {
				case 0: rc = LIB(blake2b_init_key(&S, (st.b & 1) ? 0 : bad_outlen(st.b >> 1), key, 16)); break;
				case 1: rc = LIB(blake2b_init_key(&S, 32, key, 0)); break;
				case 2: rc = LIB(blake2b_init_key(&S, 32, key, 65 + st.b % 8)); break;
				default: rc = LIB(blake2b_init_key(&S, 32, nullptr, 16)); break;
				}
			}
			if (rc == 0) fail("B2_ACCEPTED_INVALID", std::string(st.kind == S_BAD_INIT ? "blake2b_init" : "blake2b_init_key") + " accepted invalid parameters", "", (int)si);
			++R.misuse;
			R.fp = rt::mix64(R.fp, (uint64_t)(rc & 3) + 40);
			break;
		}
		case S_MOVE: {
			if (st.s < 0 || st.s >= (int)ns) break;
			Live &l = L[st.s];
			if (!l.inited) break;
			int other = 1 - l.cur;
			memcpy(&l.store[other], &l.store[l.cur], sizeof(blake2b_state));
			memset(&l.store[l.cur], 0xDD, sizeof(blake2b_state));
			l.cur = other;
			R.fp = rt::mix64(R.fp, 0x3057);
			++R.moves;
			break;
		}
		case S_COMMIT: {
			// a = hash seed, n = input length (bounded)
			size_t n = (size_t)std::min<uint64_t>(st.n, 1 << 16);
			std::vector<uint8_t> in(n + 1), cat;
			msg_bytes(st.a + 77, 0, in.data(), n);
			uint8_t h[32]; msg_bytes(st.b + 99, 0, h, 32);
			uint8_t out[64]; memset(out, CANARY, sizeof out);
			bool lib_threw_ = false;
			if (st.s == 1) ctx.faults.push_back(1); // the first allocation request inside the call (if it makes one) fails
			LIBV(randomx_calculate_commitment(in.data(), n, h, out + 16));
			if (lib_threw_) { fail("COMMITMENT_THREW", "randomx_calculate_commitment did not deliver a commitment (exception out of the C API after an allocation failure)", "len=" + std::to_string(n), (int)si); R.fp = rt::mix64(R.fp, 0x7417); break; }
			cat.assign(in.begin(), in.begin() + n); cat.insert(cat.end(), h, h + 32);
			uint8_t want[32]; model::blake2b_ref(want, 32, cat.data(), cat.size(), nullptr, 0);
			if (memcmp(out + 16, want, 32) != 0) fail("COMMITMENT_MISMATCH", "commitment != blake2b-256(input||hash)", "len=" + std::to_string(n), (int)si);
			if (!canary_ok(out, 16) || !canary_ok(out + 48, 16)) fail("B2_OUTPUT_OVERRUN", "commitment wrote outside 32 bytes", "", (int)si);
			R.fp = rt::mix64(R.fp, rt::fnv64(out, sizeof out));
			break;
		}
		}
	};
	if (p.threads <= 0) { for (size_t si = 0; si < p.steps.size() && !R.invalid; ++si) do_step(si); }
	else {
		int nt = std::min(p.threads, 8);
		struct Ctl { std::vector<std::vector<size_t>> per; decltype(do_step) *fn; } ctl;
		ctl.per.assign((size_t)nt + 1, std::vector<size_t>()); ctl.fn = &do_step;
		for (size_t si = 0; si < p.steps.size(); ++si) {
			const Step &st = p.steps[si];
			bool has_stream = st.kind == S_UPDATE || st.kind == S_FINAL || st.kind == S_FINAL_SHORT || st.kind == S_ONESHOT || st.kind == S_MOVE;
			ctl.per[1 + (has_stream ? (size_t)st.s : si) % (size_t)nt].push_back(si);
		}
		rt::SchedConfig sc; sc.replay = p.replay; sc.script = p.sched; sc.seed = rt::mix64(p.seed, 0x5c4ed); sc.p_num = p.p_num; sc.p_den = p.p_den;
		rt::sched_configure(sc); rt::sched_reset_stats();
		std::vector<int> ids; for (int t = 1; t <= nt; ++t) ids.push_back(t);
		R.recorded.clear();
		rt::sched_run_phase(nt, ids.data(), [](int task, void *arg) { Ctl *c = (Ctl *)arg; for (size_t si : c->per[(size_t)task]) (*c->fn)(si); }, &ctl, R.recorded);
		R.switches = rt::sched_stats().switches; R.ilv = rt::sched_stats().interleave_hash;
	}
#ifdef RXSIM_TSAN
	for (int i = 0; i < tsanglue::count(); ++i) fail("TSAN_RACE", tsanglue::get(i).sig, "", -1);
	tsanglue::clear();
#endif
	return R;
}

uint64_t pick_len(rt::Rng &r, bool thorough) {
	switch (r.below(12)) {
	case 0: return 0;
	case 1: return 1;
	case 2: return 127 + r.below(3);
	case 3: return 255 + r.below(3);
	case 4: return 128 * (1 + r.below(40)) + r.below(3) - 1;
	case 5: return r.below(64);
	case 6: return r.below(1024);
	case 7: return r.below(65536);
	case 8: return thorough ? r.below(1 << 20) : r.below(1 << 17);
	case 9: return 128 * (1 + r.below(8));
	default: return r.below(4096);
	}
}

Plan11 generate(uint64_t run_seed, bool thorough, bool huge, bool threaded) {
	Plan11 p; p.seed = run_seed;
	rt::Rng r = rt::substream(run_seed, "c11");
	if (huge) { // streams longer than 4 GiB: 32-bit truncation of a length or of the byte counter, counter carry
		Stream t; t.outlen = 64; t.msglen = ((uint64_t)4 << 30) + (1 << 20) + 13; t.msgseed = r.next(); t.zero = true;
		p.streams.push_back(t);      // (a) one update call larger than 4 GiB between two small ones
		p.steps.push_back(Step{S_UPDATE, 0, 3, 0, 0});
		p.steps.push_back(Step{S_UPDATE, 0, ((uint64_t)4 << 30) + 70000 + 5, 0, 0}); // whole blocks alone exceed 2^32 bytes
		p.steps.push_back(Step{S_UPDATE, 0, t.msglen, 0, 0});
		p.steps.push_back(Step{S_FINAL, 0, 0, 0, 0});
		Stream u; u.outlen = 32; u.keylen = 17; u.keyseed = r.next(); u.msglen = ((uint64_t)4 << 30) + 129; u.zero = true;
		p.streams.push_back(u);      // (b) keyed, crossing 4 GiB in 1 GiB chunks that are not block aligned
		p.steps.push_back(Step{S_UPDATE, 1, 77, 0, 0});
		for (int i = 0; i < 5; ++i) p.steps.push_back(Step{S_UPDATE, 1, ((uint64_t)1 << 30) + 1, 0, 0});
		p.steps.push_back(Step{S_FINAL, 1, 0, 0, 0});
		return p;
	}
	int ns = (int)r.range(1, 4);
	if (threaded) { // streams owned by 2-4 simulated caller threads (run under the race detector): shorter messages, more states
		ns = (int)r.range(2, 6); p.threads = (int)r.range(2, 4);
		static const uint32_t dens[] = {1, 2, 4, 8};
		p.p_num = 1; p.p_den = dens[r.below(4)];
	}
	for (int i = 0; i < ns; ++i) {
		Stream t;
		t.outlen = r.chance(1, 3) ? (r.chance(1, 2) ? 32 : 64) : (uint32_t)r.range(1, 64);
		t.keylen = r.chance(1, 3) ? (uint32_t)r.range(1, 64) : 0;
		t.keyseed = r.next(); t.msgseed = r.next();
		t.msglen = pick_len(r, thorough);
		if (threaded && t.msglen > 4096) t.msglen = 128 * (1 + t.msglen % 24) + t.msglen % 3 - 1;
		p.streams.push_back(t);
	}
	std::vector<uint64_t> left(ns); std::vector<int> mode(ns); std::vector<bool> done(ns, false);
	for (int i = 0; i < ns; ++i) { left[i] = p.streams[i].msglen; mode[i] = (int)r.below(6); }
	int open = ns, guard = 0;
	while (open > 0 && ++guard < 3000) {
		int s = (int)r.below(ns);
		if (done[s]) continue;
		if (r.chance(1, 40)) { // misuse / invalid calls interleaved with the streams
			Step m; m.kind = (int)r.pick(std::vector<int>{S_BAD_ONESHOT, S_BAD_INIT, S_BAD_INIT_KEY, S_COMMIT}); m.a = (uint32_t)r.next(); m.b = (uint32_t)r.next(); m.n = r.below(300);
			if (m.kind == S_COMMIT) { m.s = r.chance(1, 3) ? 1 : 0; if (r.chance(1, 4)) m.n = 225 + r.below(4000); }
			p.steps.push_back(m);
			continue;
		}
		if (left[s] == 0 || r.chance(1, 60)) { // finish (possibly early: digest of the prefix)
			if (r.chance(1, 10)) p.steps.push_back(Step{S_FINAL_SHORT, s, 0, (uint32_t)r.next(), 0});
			p.steps.push_back(Step{S_FINAL, s, 0, 0, 0});
			if (r.chance(1, 4)) p.steps.push_back(Step{S_UPDATE, s, 1 + r.below(200), 0, 0}); // update after final
			if (r.chance(1, 4)) p.steps.push_back(Step{S_FINAL, s, 0, 0, 0});                   // final after final
			if (r.chance(1, 3)) p.steps.push_back(Step{S_ONESHOT, s, 0, (uint32_t)r.below(2), 0});
			done[s] = true; --open;
			continue;
		}
		if (r.chance(1, 12)) p.steps.push_back(Step{S_MOVE, s, 0, 0, 0}); // the caller relocates the state object between two calls
		uint64_t n;
		switch (mode[s]) {
		case 0: n = 1; break;                                 // dribble
		case 1: n = 128; break;                               // exact blocks
		case 2: n = left[s]; break;                           // one big chunk
		case 3: n = r.below(300); break;                      // random small, zero-length included
		case 4: n = r.chance(1, 2) ? 127 + r.below(3) : r.below(5); break;
		default: n = r.below(left[s] + 1); break;
		}
		if (mode[s] == 0 && left[s] > 600) mode[s] = 5;       // do not dribble forever
		if (n > left[s]) n = left[s];
		p.steps.push_back(Step{S_UPDATE, s, n, n == 0 ? (uint32_t)r.below(2) : 0u, 0});
		left[s] -= n;
	}
	for (int s = 0; s < ns; ++s) if (!done[s]) p.steps.push_back(Step{S_FINAL, s, 0, 0, 0});
	return p;
}

void print_result(uint64_t idx, const Plan11 &p, const Result &R, bool with_plan) {
	std::string s = "{\"type\":\"run\",\"run\":" + std::to_string(idx) + ",\"seed\":" + std::to_string(p.seed);
	char b[300];
	snprintf(b, sizeof b, ",\"fp\":\"%016llx\",\"events\":%zu,\"ops\":%zu,\"nops\":%zu,\"tasks\":%zu,\"invalid\":%s,\"steps\":%zu,\"switches\":%llu,\"yields\":0,\"ilv\":\"%016llx\",\"shape\":\"%016llx\"",
	         (unsigned long long)R.fp, p.steps.size(), p.steps.size(), p.steps.size(), p.streams.size(), R.invalid ? "true" : "false", p.steps.size(), (unsigned long long)(p.threads ? R.switches : R.interleaved),
	         (unsigned long long)(p.threads ? R.ilv : R.interleaved), (unsigned long long)rt::fnv64(p.streams.data(), 0) ^ (unsigned long long)p.steps.size() * 1315423911ULL ^ (unsigned long long)p.streams.size());
	s += b;
	snprintf(b, sizeof b, ",\"req\":[0,0,0,0],\"fired\":[0,0,0,0],\"probes\":{\"bytes\":%llu,\"updates\":%llu,\"finals\":%llu,\"misuse_calls\":%llu,\"early_finals\":%llu,\"zero_length_chunks\":%llu,\"interleaved_switches\":%llu,\"state_relocations\":%llu}",
	         (unsigned long long)R.bytes, (unsigned long long)R.updates, (unsigned long long)R.finals, (unsigned long long)R.misuse, (unsigned long long)R.early_finals, (unsigned long long)R.zero_chunks, (unsigned long long)R.interleaved, (unsigned long long)R.moves);
	s += b;
	s += ",\"violations\":[";
	for (size_t i = 0; i < R.v.size(); ++i) s += std::string(i ? "," : "") + "{\"cls\":\"" + R.v[i].cls + "\",\"sig\":\"" + rt::json_escape(R.v[i].sig) + "\",\"detail\":\"" + rt::json_escape(R.v[i].detail) + "\",\"op\":" + std::to_string(R.v[i].step) + ",\"opkind\":\"step\"}";
	s += "]";
	if (with_plan) { Plan11 q = p; if (q.threads) { q.sched = R.recorded; q.replay = true; } s += ",\"plan\":" + to_json(q); }
	s += "}";
	printf("%s\n", s.c_str());
	fflush(stdout);
}

} // namespace

int c11_worker(uint64_t seed, uint64_t from, uint64_t to, uint64_t step, double budget_s, uint64_t samples, const std::string &tier, const std::string &mode) {
	const bool threaded = mode == "threads";
	double t0 = now_s();
	uint64_t done = 0;
	bool thorough = tier == "thorough";
	for (uint64_t idx = from; idx < to; idx += step) {
		if (budget_s > 0 && done > 0 && now_s() - t0 > budget_s) break;
		uint64_t run_seed = rt::mix64(rt::mix_str(seed, "C11"), idx);
		bool huge = idx == 0 && !threaded; // one >4 GiB plan per check run (about 25 s on one worker)
		Plan11 p = generate(run_seed, thorough, huge, threaded);
		Result R = run(p);
		print_result(idx, p, R, !R.v.empty() || done < samples);
		++done;
	}
	printf("{\"type\":\"bye\",\"runs\":%llu,\"wall_s\":%.3f}\n", (unsigned long long)done, now_s() - t0);
	fflush(stdout);
	return 0;
}

int c11_replay(const rt::JVal &j, bool, bool quiet) {
	Plan11 p;
	if (!from_json(j, p)) { fprintf(stderr, "replay: bad C11 plan\n"); return 2; }
	Result R = run(p);
	if (!quiet) print_result(0, p, R, false);
	return 0;
}

std::string c11_genplan(uint64_t run_seed, uint64_t index, const std::string &tier, const std::string &mode) {
	const bool threaded = mode == "threads";
	return to_json(generate(run_seed, tier == "thorough", index == 0 && !threaded, threaded));
}

} // namespace gen
