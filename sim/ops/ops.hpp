// rxsim operation language: plans (explicit, PRNG-free), JSON I/O, contract model, results.
#pragma once
#include "../rt/rt.hpp"
#include <stdint.h>
#include <string>
#include <vector>
#include <map>

namespace ops {

enum Kind {
	ALLOC_CACHE, INIT_CACHE, RELEASE_CACHE,
	ALLOC_DATASET, INIT_DATASET, RELEASE_DATASET,
	CREATE_VM, DESTROY_VM, SET_CACHE, SET_DATASET, SET_V2, CLEAR_V2,
	HASH, FIRST, NEXT, LAST, COMMIT,
	DS_GUARD,     // harness: poison + protect the dataset region that later INIT_DATASET ops of this phase group will touch
	DS_CHECK,     // harness: verify dataset items/poison against the dataset model, lift protections
	CACHE_CHECK,  // harness: checksum of cache memory must equal a fresh cache of the same key/flags
	RO_GUARD,     // harness: make cache memory / complete dataset read-only (C14 guard), lifted by RO_LIFT
	RO_LIFT,
	MAPS_AUDIT,   // harness: /proc/self/maps vs page-protection model
	KIND_COUNT
};
const char *kind_name(int k);
int kind_from_name(const std::string &s);

struct Blob { // deterministic byte string: bytes are a pure function of (len, seed)
	uint32_t len = 0;
	uint64_t seed = 0;
	uint32_t tweak = 0; // 0: none, 1: last byte inverted, 2: first byte inverted (keys that differ in one byte only)
	Blob() {}
	Blob(uint32_t l, uint64_t s, uint32_t t = 0) : len(l), seed(s), tweak(t) {}
	std::vector<uint8_t> bytes() const;
	bool operator<(const Blob &o) const { return len != o.len ? len < o.len : seed != o.seed ? seed < o.seed : tweak < o.tweak; }
	bool operator==(const Blob &o) const { return len == o.len && seed == o.seed && tweak == o.tweak; }
};

struct Op {
	int kind = 0;
	int phase = 0, task = 0;
	int c = -1, d = -1, v = -1;
	uint32_t flags = 0;
	int key = -1, input = -1;
	uint64_t start = 0, count = 0;
	std::vector<int> fault;  // 1-based allocation-request ordinals inside this call that fail
	std::vector<int> pfault; // 1-based ordinals of the page-protection requests (mprotect) inside this call that are refused
	int64_t env = -1;        // MXCSR value on entry (-1: simulator default 0x1F80)
	int heap = 0;            // seam::HP_* bits
	bool expect_null = false;
	uint32_t preempt = 0;    // >0: the thread executing this op is preempted after that many library instructions ...
	uint32_t preempt_at = 0; // ... counted from the preempt_at-th scheduling point it passes inside the call (0 = from the start of the call); concurrent phases, plain variant
};

struct Plan {
	std::string property;
	uint64_t seed = 0;        // run seed it was generated from (informational)
	uint64_t heap_seed = 1;
	std::vector<Blob> keys, inputs;
	std::vector<Op> ops;
	std::vector<rt::Switch> sched; // forced switches (replay) / recorded switches (after a run)
	// generation-time scheduler parameters (ignored on replay)
	uint32_t p_num = 0, p_den = 1; int park_site = 0; uint32_t park_num = 0, park_den = 1;
	bool replay = false;
	int audit_every = 0;      // >0: /proc/self/maps audit after every n-th op
	bool fullmem_model = false; // shipped configuration: the fresh-object model may build a second full dataset
	uint64_t items = 0;       // dataset item count of the configuration the plan was generated for (0 = unknown)
	bool cold = false;        // first history of a process that ran no warm-up: no reference-model call is made before the history has run
	                          // (the library's one-time initialisations then happen inside the history - under its threads and faults)
	uint64_t warmup_seed = 0; // != 0: the per-process warm-up history of the worker that ran this plan entered its hash calls under environments drawn from this seed (C13: the FIRST call of a process may come from any environment too)
	std::string note;
};

std::string plan_to_json(const Plan &p, bool pretty = false);
bool plan_from_json(const rt::JVal &j, Plan &p, std::string &err);
uint64_t plan_shape_hash(const Plan &p); // hash of the op-kind/flag sequence

// ------------------------------------------------------------------ contract model (static)
// what a hash-like op must return, decided from the plan alone
struct Expect {
	bool has_digest = false;
	int key = -1, input = -1;      // indices into plan
	bool v2 = false;
	uint32_t vmflags = 0;          // flags of the VM (without V2)
	uint32_t cacheflags = 0;       // flags of the cache that backs it (light) / initialised the dataset (fast)
	bool expect_null = false;      // creating call must return NULL (fault attached)
	bool is_hash_call = false;     // single-call hash: MXCSR must be preserved
};

struct Annotated {
	bool valid = false;
	std::string error;            // why the plan leaves the documented contract
	std::vector<Expect> expect;   // per op
	int max_phase = 0;
	// probes computed from the model
	std::map<std::string, uint64_t> probes;
};
Annotated annotate(const Plan &p, uint64_t dataset_items);

// ------------------------------------------------------------------ results
struct OpResult {
	bool executed = false;
	bool returned_null = false;
	uint8_t digest[32] = {0};
	bool has_digest = false;
	uint32_t mxcsr_before = 0, mxcsr_after = 0;
	int requests = 0, fired = 0, frees = 0;
};

struct Violation {
	std::string cls, sig, detail;
	int op_index = -1;
};

} // namespace ops
