// rxsim plan generators (one per claimed property) and the C11 stream simulator.
#pragma once
#include "ops.hpp"
#include <string>
#include <vector>
#include <map>

namespace gen {

struct Context {
	std::string property, tier, mode;
	bool small = true;
	uint64_t N = 0;                  // dataset items
	uint32_t cpu_flags = 0;          // randomx_get_flags()
	std::vector<uint32_t> cache_flagsets, vm_flagsets_light, vm_flagsets_fast;
	std::map<std::string, int> request_counts; // creating call + flags -> allocation requests (dry runs)
	std::vector<ops::Plan> enumeration;        // C15: complete single-fault enumeration
	bool no_dry_run = false;                   // cold worker, first plan: no library call may precede the history (request counts fall back to a default)
};

void init_context(Context &gc);
ops::Plan generate(Context &gc, uint64_t run_seed, uint64_t index);
uint64_t enum_size(Context &gc);
void prime_request_counts_in_child(Context &gc);
ops::Plan warmup_plan(Context &gc, uint64_t env_seed = 0);

// C11
int c11_worker(uint64_t seed, uint64_t from, uint64_t to, uint64_t step, double budget_s, uint64_t samples, const std::string &tier, const std::string &mode);
int c11_replay(const rt::JVal &plan, bool trace, bool quiet = false);
std::string c11_genplan(uint64_t run_seed, uint64_t index, const std::string &tier, const std::string &mode);

} // namespace gen
