// rxsim runtime implementation. Never instrumented by a sanitizer (see rt.hpp).
#include "rt.hpp"
#include <pthread.h>
#include <stdio.h>
#include <stdlib.h>
#include <string.h>
#include <unistd.h>
#include <sys/syscall.h>
#include <linux/futex.h>

extern "C" {
void __tsan_ignore_thread_begin(const char *, int) __attribute__((weak));
void __tsan_ignore_thread_end(const char *, int) __attribute__((weak));
}

namespace rt {

EventLog g_log;

void EventLog::ev(const char *kind, int task, int op, uint64_t a, uint64_t b, uint64_t c) {
	uint64_t h = fp;
	for (const char *p = kind; *p; ++p) h = (h ^ (uint8_t)*p) * 0x100000001b3ULL;
	h = mix64(h, (uint64_t)(uint32_t)task << 32 | (uint32_t)op);
	h = mix64(h, a); h = mix64(h, b); h = mix64(h, c);
	fp = h;
	if (kind[0] == 'o' && kind[1] == 'p' && !kind[2]) sem += mix64(mix64((uint64_t)(uint32_t)op, a), mix64(b, c));
	else if (kind[0] == 'v' && kind[1] == 'i') sem += mix64(0x7101, mix64(a, b));
	++count;
	if (trace) {
		char buf[256];
		snprintf(buf, sizeof buf, "%llu t%d op%d %s %llu %llu %llu", (unsigned long long)count, task, op, kind,
		         (unsigned long long)a, (unsigned long long)b, (unsigned long long)c);
		lines.push_back(buf);
	}
}

std::string hex(const void *p, size_t n) {
	static const char *d = "0123456789abcdef";
	std::string s; s.resize(n * 2);
	const uint8_t *b = (const uint8_t *)p;
	for (size_t i = 0; i < n; ++i) { s[2 * i] = d[b[i] >> 4]; s[2 * i + 1] = d[b[i] & 15]; }
	return s;
}
uint64_t fnv64(const void *p, size_t n, uint64_t h) {
	const uint8_t *b = (const uint8_t *)p;
	for (size_t i = 0; i < n; ++i) h = (h ^ b[i]) * 0x100000001b3ULL;
	return h;
}

// ---------------------------------------------------------------- raw futex hand-off
static inline long raw_futex(volatile int *addr, int op, int val) {
	long ret;
	register long r10 __asm__("r10") = 0; // timeout = NULL
	__asm__ volatile("syscall"
	                 : "=a"(ret)
	                 : "0"((long)SYS_futex), "D"(addr), "S"((long)op), "d"((long)val), "r"(r10)
	                 : "rcx", "r11", "memory");
	return ret;
}
static inline void fence() { __asm__ volatile("mfence" ::: "memory"); }

static const int MAXT = 16;
struct Slot {
	volatile int futex; // 0 = parked, 1 = may run
	int task_id;
	volatile int finished;
	pthread_t th;
	char pad[64];
};
static Slot g_slot[MAXT + 1]; // slot 0 = the run's main thread
static volatile int g_nslots = 0;
static volatile int g_cur = 0;        // slot index holding the token
static volatile int g_in_phase = 0;
static __thread int t_slot = 0;

static SchedConfig g_cfg;
static SchedStats g_stats;
static Rng g_srng;
static size_t g_script_pos = 0;
static std::vector<Switch> *g_rec = nullptr;
static void (*g_switch_hook)() = nullptr;
static TaskBody g_body = nullptr;
static void *g_body_arg = nullptr;

static void park(int slot) {
	while (g_slot[slot].futex == 0) raw_futex(&g_slot[slot].futex, FUTEX_WAIT_PRIVATE, 0);
	g_slot[slot].futex = 0;
	fence();
}
static void grant(int slot) {
	fence();
	g_slot[slot].futex = 1;
	fence();
	raw_futex(&g_slot[slot].futex, FUTEX_WAKE_PRIVATE, 1);
}

void sched_configure(const SchedConfig &cfg) {
	g_cfg = cfg;
	g_srng.seed(cfg.seed ^ 0x5ced5ced5cedULL);
	g_script_pos = 0;
}
const SchedStats &sched_stats() { return g_stats; }
void sched_reset_stats() { g_stats = SchedStats(); }
void sched_set_switch_hook(void (*hook)()) { g_switch_hook = hook; }
int sched_current_task() { return g_in_phase ? g_slot[t_slot].task_id : 0; }
bool sched_in_phase() { return g_in_phase != 0; }

// decide which slot runs next; `finishing` = the current slot cannot continue
static int decide(int site, bool finishing, bool force = false) {
	int runnable[MAXT], nr = 0;
	for (int i = 1; i <= g_nslots; ++i)
		if (!g_slot[i].finished && !(finishing && i == g_cur)) runnable[nr++] = i;
	if (nr == 0) return 0; // back to main
	if (!finishing && nr == 1) return g_cur; // nobody else could run: not a decision
	++g_stats.steps;
	uint64_t step = g_stats.steps;
	int next = finishing ? -1 : g_cur;
	if (g_cfg.replay) {
		while (g_script_pos < g_cfg.script.size() && g_cfg.script[g_script_pos].step < step) ++g_script_pos;
		if (g_script_pos < g_cfg.script.size() && g_cfg.script[g_script_pos].step == step) {
			int want = g_cfg.script[g_script_pos].task;
			++g_script_pos;
			for (int k = 0; k < nr; ++k) if (g_slot[runnable[k]].task_id == want) next = runnable[k];
		}
		if (next < 0) next = runnable[0];
	} else {
		bool sw = finishing || force;
		if (!sw) {
			if (site == g_cfg.park_site && g_cfg.park_site != 0) sw = g_srng.chance(g_cfg.park_num, site_is_dense(site) ? g_cfg.park_den * 16 : g_cfg.park_den);
			else {
				// scheduling points that are passed thousands of times per call (per interpreter iteration, per dataset
				// item, per Argon2 block) switch 16 times less often each, or a run would consist of hand-offs
				uint32_t den = g_cfg.p_den;
				if (site_is_dense(site)) den = den > (1u << 27) ? den : den * 16;
				sw = g_cfg.p_num && g_srng.chance(g_cfg.p_num, den);
			}
		}
		if (sw) {
			// candidates other than the current slot
			int cand[MAXT], nc = 0;
			for (int k = 0; k < nr; ++k) if (runnable[k] != g_cur || finishing) cand[nc++] = runnable[k];
			if (nc > 0) next = cand[g_srng.below(nc)];
		}
		if (next < 0) next = runnable[0];
	}
	if (next != g_cur || finishing) {
		// recording a switch may allocate (vector growth): keep it out of TSan's sight whatever the caller's state
		struct Ign { Ign() { if (__tsan_ignore_thread_begin) __tsan_ignore_thread_begin(__FILE__, __LINE__); } ~Ign() { if (__tsan_ignore_thread_end) __tsan_ignore_thread_end(__FILE__, __LINE__); } } ign;
		++g_stats.switches;
		g_stats.interleave_hash = mix64(g_stats.interleave_hash, ((uint64_t)g_slot[next].task_id << 32) | (uint32_t)site);
		g_stats.interleave_hash = mix64(g_stats.interleave_hash, (uint64_t)g_slot[g_cur].task_id);
		if (g_rec) g_rec->push_back(Switch{step, g_slot[next].task_id});
		g_log.ev("switch", g_slot[g_cur].task_id, -1, step, (uint64_t)g_slot[next].task_id, (uint64_t)site);
	}
	return next;
}

static __thread int t_lock_depth = 0;
void sched_lock_enter() { ++t_lock_depth; }
void sched_lock_exit() { if (t_lock_depth > 0) --t_lock_depth; }
int sched_lock_depth() { return t_lock_depth; }

void sched_yield_point(int site) {
	++g_stats.yields_total;
	if (!g_in_phase) return;
	if (t_lock_depth > 0) { ++g_stats.yields_in_lock; return; }
	int me = t_slot;
	if (me == 0 || me != g_cur) return; // not a simulated task (should not happen)
	int next = decide(site, false);
	if (next == me || next == 0) return;
	g_cur = next;
	if (g_switch_hook) g_switch_hook();
	grant(next);
	park(me);
}

bool sched_yield_point_forced(int site) {
	++g_stats.yields_total;
	if (!g_in_phase || t_lock_depth > 0) return false;
	int me = t_slot;
	if (me == 0 || me != g_cur) return false;
	int next = decide(site, false, true);
	if (next == me || next == 0) return false;
	g_cur = next;
	if (g_switch_hook) g_switch_hook();
	grant(next);
	park(me);
	return true;
}

static void *thread_main(void *arg) {
	int slot = (int)(intptr_t)arg;
	t_slot = slot;
	// simulator code on a simulated thread is invisible to TSan (the executor lifts this around library calls)
	if (__tsan_ignore_thread_begin) __tsan_ignore_thread_begin(__FILE__, __LINE__);
	park(slot);
	g_body(g_slot[slot].task_id, g_body_arg);
	// task end: hand the token on
	g_slot[slot].finished = 1;
	int next = decide(SITE_TASK_END, true);
	g_cur = next;
	if (g_switch_hook) g_switch_hook();
	grant(next);
	// stay parked until the phase is over: thread exit (TLS destructors, malloc arena hand-back inside glibc)
	// must not overlap in real time with whoever runs next; main releases finished threads one at a time
	park(slot);
	if (__tsan_ignore_thread_end) __tsan_ignore_thread_end(__FILE__, __LINE__);
	return nullptr;
}

void sched_run_phase(int ntasks, const int *task_ids, TaskBody body, void *arg, std::vector<Switch> &recorded) {
	if (ntasks > MAXT) { fprintf(stderr, "rxsim: too many tasks\n"); abort(); }
	g_body = body; g_body_arg = arg; g_rec = &recorded;
	g_nslots = ntasks;
	g_slot[0].futex = 0; g_slot[0].task_id = 0; g_slot[0].finished = 0;
	for (int i = 1; i <= ntasks; ++i) { g_slot[i].futex = 0; g_slot[i].task_id = task_ids[i - 1]; g_slot[i].finished = 0; }
	g_cur = 0;
	g_in_phase = 1;
	fence();
	pthread_attr_t at; pthread_attr_init(&at); pthread_attr_setstacksize(&at, 16u << 20);
	for (int i = 1; i <= ntasks; ++i) {
		if (pthread_create(&g_slot[i].th, &at, thread_main, (void *)(intptr_t)i) != 0) { fprintf(stderr, "rxsim: pthread_create failed\n"); abort(); }
	}
	pthread_attr_destroy(&at);
	// first decision: who starts (main is "finishing": it cannot continue)
	int first = decide(SITE_PHASE_START, true);
	g_cur = first;
	grant(first);
	park(0);
	for (int i = 1; i <= ntasks; ++i) { grant(i); pthread_join(g_slot[i].th, nullptr); }
	g_in_phase = 0;
	g_rec = nullptr;
	fence();
}

// ---------------------------------------------------------------- JSON
namespace {
struct P {
	const std::string &t; size_t i = 0; std::string err;
	explicit P(const std::string &s) : t(s) {}
	void ws() { while (i < t.size() && (t[i] == ' ' || t[i] == '\n' || t[i] == '\t' || t[i] == '\r')) ++i; }
	bool val(JVal &v) {
		ws();
		if (i >= t.size()) { err = "eof"; return false; }
		char c = t[i];
		if (c == '{') {
			v.t = JVal::OBJ; ++i; ws();
			if (i < t.size() && t[i] == '}') { ++i; return true; }
			for (;;) {
				JVal k; ws();
				if (!str(k)) return false;
				ws(); if (i >= t.size() || t[i] != ':') { err = "colon"; return false; } ++i;
				JVal x; if (!val(x)) return false;
				v.o.emplace_back(k.s, std::move(x));
				ws();
				if (i < t.size() && t[i] == ',') { ++i; continue; }
				if (i < t.size() && t[i] == '}') { ++i; return true; }
				err = "obj"; return false;
			}
		}
		if (c == '[') {
			v.t = JVal::ARR; ++i; ws();
			if (i < t.size() && t[i] == ']') { ++i; return true; }
			for (;;) {
				JVal x; if (!val(x)) return false;
				v.a.push_back(std::move(x));
				ws();
				if (i < t.size() && t[i] == ',') { ++i; continue; }
				if (i < t.size() && t[i] == ']') { ++i; return true; }
				err = "arr"; return false;
			}
		}
		if (c == '"') return str(v);
		if (c == 't' && t.compare(i, 4, "true") == 0) { v.t = JVal::BOOL; v.b = true; i += 4; return true; }
		if (c == 'f' && t.compare(i, 5, "false") == 0) { v.t = JVal::BOOL; v.b = false; i += 5; return true; }
		if (c == 'n' && t.compare(i, 4, "null") == 0) { v.t = JVal::NUL; i += 4; return true; }
		if (c == '-' || (c >= '0' && c <= '9')) {
			v.t = JVal::NUM;
			bool neg = false; if (c == '-') { neg = true; ++i; }
			uint64_t n = 0; bool any = false;
			while (i < t.size() && t[i] >= '0' && t[i] <= '9') { n = n * 10 + (uint64_t)(t[i] - '0'); ++i; any = true; }
			if (!any) { err = "num"; return false; }
			if (i < t.size() && (t[i] == '.' || t[i] == 'e' || t[i] == 'E')) { // skip fraction/exponent (not used)
				while (i < t.size() && (t[i] == '.' || t[i] == 'e' || t[i] == 'E' || t[i] == '+' || t[i] == '-' || (t[i] >= '0' && t[i] <= '9'))) ++i;
			}
			v.i = neg ? -(int64_t)n : (int64_t)n; v.neg = neg;
			return true;
		}
		err = "value"; return false;
	}
	bool str(JVal &v) {
		if (i >= t.size() || t[i] != '"') { err = "string"; return false; }
		++i; v.t = JVal::STR;
		while (i < t.size() && t[i] != '"') {
			if (t[i] == '\\' && i + 1 < t.size()) {
				char e = t[i + 1]; i += 2;
				switch (e) {
				case 'n': v.s += '\n'; break; case 't': v.s += '\t'; break; case 'r': v.s += '\r'; break;
				case 'u': { unsigned cp = 0; if (i + 4 <= t.size()) { cp = (unsigned)strtoul(t.substr(i, 4).c_str(), nullptr, 16); i += 4; } v.s += (char)cp; break; }
				default: v.s += e;
				}
			} else v.s += t[i++];
		}
		if (i >= t.size()) { err = "unterminated"; return false; }
		++i; return true;
	}
};
}
bool json_parse(const std::string &text, JVal &out, std::string &err) {
	P p(text);
	if (!p.val(out)) { err = p.err + " at " + std::to_string(p.i); return false; }
	return true;
}
std::string json_escape(const std::string &s) {
	std::string r;
	for (char c : s) {
		if (c == '"' || c == '\\') { r += '\\'; r += c; }
		else if (c == '\n') r += "\\n";
		else if ((unsigned char)c < 0x20) { char b[8]; snprintf(b, sizeof b, "\\u%04x", c); r += b; }
		else r += c;
	}
	return r;
}

} // namespace rt
