// rxsim runtime: PRNG streams, event log / fingerprint, seeded scheduler over real parked threads.
// This code is NEVER compiled with a sanitizer: in the tsan variant the hand-off between
// simulated threads must be invisible to TSan (plain volatile + mfence + raw futex syscall).
#pragma once
#include <stdint.h>
#include <stddef.h>
#include <string>
#include <vector>
#include <utility>

namespace rt {

// ---------------------------------------------------------------- PRNG
static inline uint64_t splitmix64(uint64_t &x) {
	uint64_t z = (x += 0x9e3779b97f4a7c15ULL);
	z = (z ^ (z >> 30)) * 0xbf58476d1ce4e5b9ULL;
	z = (z ^ (z >> 27)) * 0x94d049bb133111ebULL;
	return z ^ (z >> 31);
}
static inline uint64_t mix64(uint64_t a, uint64_t b) {
	uint64_t x = a ^ (b * 0x9e3779b97f4a7c15ULL + 0x7f4a7c15ULL);
	return splitmix64(x);
}
static inline uint64_t mix_str(uint64_t h, const char *s) {
	for (; *s; ++s) h = (h ^ (uint8_t)*s) * 0x100000001b3ULL;
	return mix64(h, 0x51ed);
}

struct Rng { // xoshiro256**
	uint64_t s[4];
	Rng() { seed(0); }
	explicit Rng(uint64_t sd) { seed(sd); }
	void seed(uint64_t sd) { for (int i = 0; i < 4; ++i) s[i] = splitmix64(sd); }
	static inline uint64_t rotl(uint64_t x, int k) { return (x << k) | (x >> (64 - k)); }
	uint64_t next() {
		uint64_t r = rotl(s[1] * 5, 7) * 9, t = s[1] << 17;
		s[2] ^= s[0]; s[3] ^= s[1]; s[1] ^= s[2]; s[0] ^= s[3]; s[2] ^= t; s[3] = rotl(s[3], 45);
		return r;
	}
	uint64_t below(uint64_t n) { return n ? next() % n : 0; }          // [0,n)
	uint64_t range(uint64_t lo, uint64_t hi) { return lo + below(hi - lo + 1); } // [lo,hi]
	bool chance(uint32_t num, uint32_t den) { return below(den) < num; }
	template <class T> const T &pick(const std::vector<T> &v) { return v[below(v.size())]; }
};
// independent sub-stream of a run seed
static inline Rng substream(uint64_t run_seed, const char *tag) { return Rng(mix_str(run_seed ^ 0xa5a5a5a5ULL, tag) ^ run_seed); }

// ---------------------------------------------------------------- event log
// Every event is mixed into a 64-bit fingerprint; with tracing on it is also kept as text.
// Events never contain an address or a clock value.
struct EventLog {
	uint64_t fp = 0x243f6a8885a308d3ULL;
	uint64_t sem = 0;   // order-independent sum over the "op" and "violation" events only: what the calls returned, not how (allocation requests, switches)
	uint64_t count = 0;
	bool trace = false;
	std::vector<std::string> lines;
	void reset(bool tr) { fp = 0x243f6a8885a308d3ULL; sem = 0; count = 0; trace = tr; lines.clear(); }
	void ev(const char *kind, int task, int op, uint64_t a = 0, uint64_t b = 0, uint64_t c = 0);
};
extern EventLog g_log;

// ---------------------------------------------------------------- scheduler
// Simulated caller threads are real pthreads; exactly one holds the run token. A thread gives the
// token away only inside sched_yield_point() or when its body returns.
struct Switch { uint64_t step; int task; };

struct SchedConfig {
	bool replay = false;
	std::vector<Switch> script;     // replay: forced switches (step, task)
	uint64_t seed = 0;              // generation: schedule sub-stream seed
	uint32_t p_num = 0, p_den = 1;  // generation: switch probability per yield
	int park_site = 0;              // generation: site id after which a switch is very likely (0 = none)
	uint32_t park_num = 0, park_den = 1;
	uint64_t max_steps = 0;         // 0 = unbounded
};

struct SchedStats {
	uint64_t steps = 0;            // yields seen while >1 thread could run
	uint64_t switches = 0;
	uint64_t interleave_hash = 0;  // hash of (task,site) at every decision that switched
	uint64_t yields_total = 0;     // all yield calls, also single-threaded ones
	uint64_t yields_in_lock = 0;   // yield points passed inside a lock / once region (never a switch)
};

typedef void (*TaskBody)(int task, void *arg);

void sched_configure(const SchedConfig &cfg);
// Runs bodies 1..n concurrently under the scheduler (on real threads); returns after all are joined.
// The switches actually taken are appended to `recorded`.
void sched_run_phase(int ntasks, const int *task_ids, TaskBody body, void *arg, std::vector<Switch> &recorded);
void sched_yield_point(int site);           // callable from anywhere; no-op unless in a concurrent phase
// A yield at which a switch is wanted (instruction-level preemption): another runnable thread is chosen (seeded / from
// the replay script). Returns false if nobody else could run or the thread is inside a lock region.
bool sched_yield_point_forced(int site);
int  sched_current_task();                  // 0 = main
bool sched_in_phase();
const SchedStats &sched_stats();
void sched_reset_stats();
void sched_set_switch_hook(void (*hook)()); // called on the thread that gives the token away, before the hand-off
// A simulated thread that is inside a lock / once / static-initialisation region of the library (the seams intercept
// pthread_mutex_*, pthread_rwlock_*, pthread_spin_*, pthread_once, __cxa_guard_*) is never switched away from: a
// parked thread that held such a lock would block the next one in the real lock for ever. Critical sections are
// therefore atomic steps of the simulation (which they are for every thread that takes the same lock).
void sched_lock_enter();
void sched_lock_exit();
int sched_lock_depth();

// site ids for simulator-originated yield points (library H1 sites use 1..15)
enum { SITE_OP_BEGIN = 16, SITE_OP_END = 17, SITE_ALLOC = 18, SITE_FREE = 19, SITE_MMAP = 20, SITE_MPROTECT = 21, SITE_MUNMAP = 22, SITE_TASK_END = 23, SITE_PHASE_START = 24, SITE_SIGACTION = 25, SITE_PREEMPT = 26, SITE_ALLOC_TINY = 27, SITE_FREE_TINY = 28 };
// sites passed thousands of times per call: a switch there is 16 times less likely than at the others
static inline bool site_is_dense(int site) { return site == 3 || site == 6 || site == 7 || site == SITE_ALLOC_TINY || site == SITE_FREE_TINY; }

// ---------------------------------------------------------------- misc
std::string hex(const void *p, size_t n);
uint64_t fnv64(const void *p, size_t n, uint64_t h = 0xcbf29ce484222325ULL);

// ---------------------------------------------------------------- tiny JSON
struct JVal {
	enum T { NUL, BOOL, NUM, STR, ARR, OBJ } t = NUL;
	bool b = false;
	int64_t i = 0;       // integers only (all our numbers are integers; u64 stored bit-for-bit)
	bool neg = false;
	std::string s;
	std::vector<JVal> a;
	std::vector<std::pair<std::string, JVal>> o;
	const JVal *get(const char *k) const { for (auto &kv : o) if (kv.first == k) return &kv.second; return nullptr; }
	int64_t num(const char *k, int64_t d = 0) const { auto v = get(k); return v && v->t == NUM ? v->i : d; }
	uint64_t u64(const char *k, uint64_t d = 0) const { auto v = get(k); return v && v->t == NUM ? (uint64_t)v->i : d; }
	std::string str(const char *k, const char *d = "") const { auto v = get(k); return v && v->t == STR ? v->s : std::string(d); }
};
bool json_parse(const std::string &text, JVal &out, std::string &err);
std::string json_escape(const std::string &s);

} // namespace rt
