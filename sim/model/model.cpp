// rxsim reference models (see model.hpp).
#include "model.hpp"
#include "../seams/seams.hpp"
#include "randomx.h"
#include "dataset.hpp"
#include "virtual_machine.hpp"
#include "superscalar.hpp"
#include <string.h>
#include <stdio.h>
#include <map>
#include <list>
#include <tuple>

namespace model {

bool Digest::operator==(const Digest &o) const { return memcmp(b, o.b, 32) == 0; }

static Limits g_lim;
void configure(const Limits &l) { g_lim = l; }

bool g_in_model = false;
static uint64_t g_hits = 0, g_misses = 0, g_cache_inits = 0, g_model_counter = 0;

// model computations run in library scope with model_mode: real allocator + noise, nothing logged.
struct ModelScope {
	seam::OpCtx ctx;
	uint32_t saved_csr;
	explicit ModelScope(uint64_t noise) {
		ctx.model_mode = true; ctx.noise_seed = noise; ctx.op_name = "model"; g_in_model = true;
		saved_csr = seam::get_mxcsr();
		seam::set_mxcsr(0x1F80);
		seam::lib_enter(&ctx);
	}
	~ModelScope() { seam::lib_exit(); seam::set_mxcsr(saved_csr); g_in_model = false; }
};

typedef std::tuple<ops::Blob, uint32_t> CKey;
struct CEnt { CKey k; randomx_cache *c; };
struct DEnt { CKey k; randomx_dataset *d; };
static std::list<CEnt> g_caches; // front = most recent
static std::list<DEnt> g_datasets;
typedef std::tuple<ops::Blob, ops::Blob, bool, uint32_t, uint32_t> MKey;
static std::map<MKey, Digest> g_memo;

uint64_t memo_size() { return g_memo.size(); }
void memo_stats(uint64_t &h, uint64_t &m, uint64_t &ci) { h = g_hits; m = g_misses; ci = g_cache_inits; }

static randomx_cache *make_cache(const ops::Blob &key, uint32_t cacheflags, uint64_t noise, std::string &err) {
	ModelScope ms(noise);
	randomx_cache *c = randomx_alloc_cache((randomx_flags)cacheflags);
	if (!c) { err = "model: randomx_alloc_cache failed"; return nullptr; }
	std::vector<uint8_t> kb = key.bytes();
	randomx_init_cache(c, kb.data(), kb.size());
	++g_cache_inits;
	return c;
}

randomx_cache *fresh_cache(const ops::Blob &key, uint32_t cacheflags, std::string &err) {
	CKey k(key, cacheflags);
	for (auto it = g_caches.begin(); it != g_caches.end(); ++it)
		if (it->k == k) { g_caches.splice(g_caches.begin(), g_caches, it); return g_caches.front().c; }
	randomx_cache *c = make_cache(key, cacheflags, rt::mix64(0x6d6f64656cULL, ++g_model_counter), err);
	if (!c) return nullptr;
	g_caches.push_front(CEnt{k, c});
	while ((int)g_caches.size() > g_lim.max_caches) {
		ModelScope ms(0);
		randomx_release_cache(g_caches.back().c);
		g_caches.pop_back();
	}
	return c;
}

static randomx_dataset *fresh_dataset(const ops::Blob &key, uint32_t cacheflags, std::string &err) {
	CKey k(key, cacheflags);
	for (auto it = g_datasets.begin(); it != g_datasets.end(); ++it)
		if (it->k == k) { g_datasets.splice(g_datasets.begin(), g_datasets, it); return g_datasets.front().d; }
	randomx_cache *c = fresh_cache(key, cacheflags, err);
	if (!c) return nullptr;
	randomx_dataset *d;
	{
		ModelScope ms(rt::mix64(0x64617461ULL, ++g_model_counter));
		d = randomx_alloc_dataset(RANDOMX_FLAG_DEFAULT);
		if (!d) { err = "model: randomx_alloc_dataset failed"; return nullptr; }
		randomx_init_dataset(d, c, 0, randomx_dataset_item_count());
	}
	g_datasets.push_front(DEnt{k, d});
	while ((int)g_datasets.size() > g_lim.max_datasets) {
		ModelScope ms(0);
		randomx_release_dataset(g_datasets.back().d);
		g_datasets.pop_back();
	}
	return d;
}

void drop_all() {
	ModelScope ms(0);
	for (auto &e : g_caches) randomx_release_cache(e.c);
	for (auto &e : g_datasets) randomx_release_dataset(e.d);
	g_caches.clear(); g_datasets.clear(); g_memo.clear();
}

static bool compute(const ops::Blob &key, const ops::Blob &input, bool v2, uint32_t vmflags, uint32_t cacheflags, uint64_t noise, Digest &out, std::string &err) {
	randomx_cache *c = nullptr;
	randomx_dataset *d = nullptr;
	if (vmflags & RANDOMX_FLAG_FULL_MEM) {
		if (!g_lim.allow_full_mem) { err = "model: FULL_MEM model disabled in this configuration"; return false; }
		d = fresh_dataset(key, cacheflags, err);
		if (!d) return false;
	} else {
		c = fresh_cache(key, cacheflags, err);
		if (!c) return false;
	}
	std::vector<uint8_t> ib = input.bytes();
	ModelScope ms(noise);
	randomx_vm *vm = randomx_create_vm((randomx_flags)(vmflags | (v2 ? RANDOMX_FLAG_V2 : 0)), c, d);
	if (!vm) { err = "model: randomx_create_vm failed"; return false; }
	randomx_calculate_hash(vm, ib.data(), ib.size(), out.b);
	randomx_destroy_vm(vm);
	return true;
}

bool fresh_digest(const ops::Blob &key, const ops::Blob &input, bool v2, uint32_t vmflags, uint32_t cacheflags, Digest &out, std::string &err, bool *noise_dep) {
	if (noise_dep) *noise_dep = false;
	MKey mk(key, input, v2, vmflags, cacheflags);
	auto it = g_memo.find(mk);
	if (it != g_memo.end()) { ++g_hits; out = it->second; return true; }
	++g_misses;
	if (!compute(key, input, v2, vmflags, cacheflags, rt::mix64(0x766d31ULL, ++g_model_counter), out, err)) return false;
	if (g_lim.double_noise) {
		Digest second;
		if (!compute(key, input, v2, vmflags, cacheflags, rt::mix64(0x766d32ULL, ++g_model_counter), second, err)) return false;
		if (!(second == out) && noise_dep) *noise_dep = true;
	}
	g_memo[mk] = out;
	return true;
}

void checksum128(const void *p, size_t n, uint64_t out[2]) {
	const uint64_t *w = (const uint64_t *)p;
	uint64_t a = 0x9e3779b97f4a7c15ULL, b = 0xc2b2ae3d27d4eb4fULL;
	size_t nw = n / 8;
	for (size_t i = 0; i < nw; ++i) {
		a = (a ^ w[i]) * 0x100000001b3ULL; a = (a << 29) | (a >> 35);
		b += w[i] * (2 * i + 1); b ^= b >> 31;
	}
	out[0] = a; out[1] = b;
}

bool fresh_cache_checksum(const ops::Blob &key, uint32_t cacheflags, uint64_t out[2], std::string &err) {
	static std::map<CKey, std::pair<uint64_t, uint64_t>> memo;
	CKey k(key, cacheflags);
	auto it = memo.find(k);
	if (it != memo.end()) { out[0] = it->second.first; out[1] = it->second.second; return true; }
	randomx_cache *c = fresh_cache(key, cacheflags, err);
	if (!c) return false;
	checksum128(randomx_get_cache_memory(c), randomx::CacheSize, out);
	memo[k] = {out[0], out[1]};
	return true;
}

// ------------------------------------------------------------------ spec reading of a dataset item (7.3, 6.2)
static inline uint64_t rotr64(uint64_t x, unsigned c) { c &= 63; return c ? (x >> c) | (x << (64 - c)) : x; }
static inline uint64_t mulh64(uint64_t a, uint64_t b) { return (uint64_t)(((unsigned __int128)a * b) >> 64); }
static inline int64_t smulh64(int64_t a, int64_t b) { return (int64_t)(((__int128)a * b) >> 64); }

void spec_item(randomx_cache *cache, uint64_t itemNumber, uint8_t out[64]) {
	static const uint64_t MUL0 = 6364136223846793005ULL;
	static const uint64_t ADD[8] = {0, 9298411001130361340ULL, 12065312585734608966ULL, 9306329213124626780ULL, 5281919268842080866ULL,
	                                10536153434571861004ULL, 3398623926847679864ULL, 9549104520008361294ULL};
	uint64_t r[8];
	r[0] = (itemNumber + 1) * MUL0;
	for (int i = 1; i < 8; ++i) r[i] = r[0] ^ ADD[i];
	uint64_t reg = itemNumber;
	const uint64_t lines = (uint64_t)randomx::CacheSize / 64;
	for (unsigned i = 0; i < RANDOMX_CACHE_ACCESSES; ++i) {
		const uint8_t *mix = cache->memory + (reg % lines) * 64;
		randomx::SuperscalarProgram &prog = cache->programs[i];
		for (unsigned j = 0; j < prog.getSize(); ++j) {
			randomx::Instruction &in = prog(j);
			uint64_t &dst = r[in.dst & 7];
			uint64_t src = r[in.src & 7];
			uint32_t imm = in.getImm32();
			switch (in.opcode) {
			case 0: dst -= src; break;                                    // ISUB_R
			case 1: dst ^= src; break;                                    // IXOR_R
			case 2: dst += src << ((in.mod >> 2) & 3); break;             // IADD_RS
			case 3: dst *= src; break;                                    // IMUL_R
			case 4: dst = rotr64(dst, imm); break;                        // IROR_C
			case 5: case 7: case 9: dst += (uint64_t)(int64_t)(int32_t)imm; break;  // IADD_C*
			case 6: case 8: case 10: dst ^= (uint64_t)(int64_t)(int32_t)imm; break; // IXOR_C*
			case 11: dst = mulh64(dst, src); break;                       // IMULH_R
			case 12: dst = (uint64_t)smulh64((int64_t)dst, (int64_t)src); break;   // ISMULH_R
			case 13: dst *= cache->reciprocalCache[imm]; break;           // IMUL_RCP (imm32 was replaced by the index)
			default: break;
			}
		}
		for (int q = 0; q < 8; ++q) { uint64_t w; memcpy(&w, mix + 8 * q, 8); r[q] ^= w; }
		reg = r[prog.getAddressRegister()];
	}
	memcpy(out, r, 64);
}

// ------------------------------------------------------------------ BLAKE2b from RFC 7693
static const uint64_t B2IV[8] = {0x6a09e667f3bcc908ULL, 0xbb67ae8584caa73bULL, 0x3c6ef372fe94f82bULL, 0xa54ff53a5f1d36f1ULL,
                                 0x510e527fade682d1ULL, 0x9b05688c2b3e6c1fULL, 0x1f83d9abfb41bd6bULL, 0x5be0cd19137e2179ULL};
static const uint8_t B2SIGMA[12][16] = {
	{0, 1, 2, 3, 4, 5, 6, 7, 8, 9, 10, 11, 12, 13, 14, 15}, {14, 10, 4, 8, 9, 15, 13, 6, 1, 12, 0, 2, 11, 7, 5, 3},
	{11, 8, 12, 0, 5, 2, 15, 13, 10, 14, 3, 6, 7, 1, 9, 4}, {7, 9, 3, 1, 13, 12, 11, 14, 2, 6, 5, 10, 4, 0, 15, 8},
	{9, 0, 5, 7, 2, 4, 10, 15, 14, 1, 11, 12, 6, 8, 3, 13}, {2, 12, 6, 10, 0, 11, 8, 3, 4, 13, 7, 5, 15, 14, 1, 9},
	{12, 5, 1, 15, 14, 13, 4, 10, 0, 7, 6, 3, 9, 2, 8, 11}, {13, 11, 7, 14, 12, 1, 3, 9, 5, 0, 15, 4, 8, 6, 2, 10},
	{6, 15, 14, 9, 11, 3, 0, 8, 12, 2, 13, 7, 1, 4, 10, 5}, {10, 2, 8, 4, 7, 6, 1, 5, 15, 11, 9, 14, 3, 12, 13, 0},
	{0, 1, 2, 3, 4, 5, 6, 7, 8, 9, 10, 11, 12, 13, 14, 15}, {14, 10, 4, 8, 9, 15, 13, 6, 1, 12, 0, 2, 11, 7, 5, 3}};

static void b2_compress(uint64_t h[8], const uint8_t block[128], const uint64_t t[2], bool last) {
	uint64_t m[16], v[16];
	for (int i = 0; i < 16; ++i) { uint64_t w = 0; for (int j = 7; j >= 0; --j) w = (w << 8) | block[8 * i + j]; m[i] = w; }
	for (int i = 0; i < 8; ++i) { v[i] = h[i]; v[i + 8] = B2IV[i]; }
	v[12] ^= t[0]; v[13] ^= t[1];
	if (last) v[14] = ~v[14];
	auto G = [&](int a, int b, int c, int d, uint64_t x, uint64_t y) {
		v[a] = v[a] + v[b] + x; v[d] = rotr64(v[d] ^ v[a], 32);
		v[c] = v[c] + v[d];     v[b] = rotr64(v[b] ^ v[c], 24);
		v[a] = v[a] + v[b] + y; v[d] = rotr64(v[d] ^ v[a], 16);
		v[c] = v[c] + v[d];     v[b] = rotr64(v[b] ^ v[c], 63);
	};
	for (int r = 0; r < 12; ++r) {
		const uint8_t *s = B2SIGMA[r];
		G(0, 4, 8, 12, m[s[0]], m[s[1]]); G(1, 5, 9, 13, m[s[2]], m[s[3]]); G(2, 6, 10, 14, m[s[4]], m[s[5]]); G(3, 7, 11, 15, m[s[6]], m[s[7]]);
		G(0, 5, 10, 15, m[s[8]], m[s[9]]); G(1, 6, 11, 12, m[s[10]], m[s[11]]); G(2, 7, 8, 13, m[s[12]], m[s[13]]); G(3, 4, 9, 14, m[s[14]], m[s[15]]);
	}
	for (int i = 0; i < 8; ++i) h[i] ^= v[i] ^ v[i + 8];
}

bool B2::init(size_t nn, const void *key, size_t kk) {
	if (nn == 0 || nn > 64 || kk > 64) return false;
	if (kk > 0 && key == nullptr) return false;
	for (int i = 0; i < 8; ++i) h[i] = B2IV[i];
	h[0] ^= 0x01010000ULL ^ ((uint64_t)kk << 8) ^ (uint64_t)nn;
	t[0] = t[1] = 0; buflen = 0; outlen = nn; finalized = false;
	memset(buf, 0, sizeof buf);
	if (kk > 0) { uint8_t blk[128]; memset(blk, 0, 128); memcpy(blk, key, kk); update(blk, 128); }
	return true;
}
void B2::update(const void *in_, size_t n) {
	const uint8_t *in = (const uint8_t *)in_;
	while (n > 0) {
		if (buflen == 128) { // buffer full and more data follows: it is not the last block
			t[0] += 128; if (t[0] < 128) t[1]++;
			b2_compress(h, buf, t, false);
			buflen = 0;
		}
		size_t take = 128 - buflen; if (take > n) take = n;
		memcpy(buf + buflen, in, take);
		buflen += take; in += take; n -= take;
	}
}
void B2::final(uint8_t *out) {
	t[0] += buflen; if (t[0] < buflen) t[1]++;
	memset(buf + buflen, 0, 128 - buflen);
	b2_compress(h, buf, t, true);
	uint8_t full[64];
	for (int i = 0; i < 8; ++i) for (int j = 0; j < 8; ++j) full[8 * i + j] = (uint8_t)(h[i] >> (8 * j));
	memcpy(out, full, outlen);
	finalized = true;
}
bool blake2b_ref(uint8_t *out, size_t outlen, const void *in, size_t inlen, const void *key, size_t keylen) {
	B2 s;
	if (!s.init(outlen, key, keylen)) return false;
	s.update(in, inlen);
	s.final(out);
	return true;
}

} // namespace model
