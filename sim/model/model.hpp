// rxsim reference models (oracles): fresh-object digest memo, dataset-item spec reading,
// cache checksum, BLAKE2b written from RFC 7693.
#pragma once
#include "../ops/ops.hpp"
#include <stdint.h>
#include <string>

struct randomx_cache;

namespace model {

extern bool g_in_model; // a reference-model computation is in flight (for crash attribution)

struct Digest { uint8_t b[32]; bool operator==(const Digest &o) const; };

struct Limits { int max_caches = 8; int max_datasets = 2; bool allow_full_mem = true; bool double_noise = true; };
void configure(const Limits &l);

// Digest a FRESH cache + FRESH VM (+ fresh, single-call-initialised dataset for FULL_MEM) of exactly these
// flag sets returns. Memoised. Returns false (err set) if it cannot be computed; *noise_dep is set if two
// computations over different heap noise disagreed.
bool fresh_digest(const ops::Blob &key, const ops::Blob &input, bool v2, uint32_t vmflags, uint32_t cacheflags,
                  Digest &out, std::string &err, bool *noise_dep);

// 128-bit checksum of the cache memory of a fresh cache(key, cacheflags)
bool fresh_cache_checksum(const ops::Blob &key, uint32_t cacheflags, uint64_t out[2], std::string &err);
void checksum128(const void *p, size_t n, uint64_t out[2]);

// fresh model cache (owned by the memo; do not release)
randomx_cache *fresh_cache(const ops::Blob &key, uint32_t cacheflags, std::string &err);

// independent reading of spec 7.3 / 6.2: executes the cache's SuperscalarHash instruction lists itself
void spec_item(randomx_cache *cache, uint64_t index, uint8_t out[64]);

uint64_t memo_size();
void memo_stats(uint64_t &hits, uint64_t &misses, uint64_t &cache_inits);
void drop_all(); // release model objects (before exit, for leak hygiene)

// ------------------------------------------------------------------ BLAKE2b reference (RFC 7693)
struct B2 {
	uint64_t h[8]; uint64_t t[2]; uint8_t buf[128]; size_t buflen; size_t outlen; bool finalized;
	bool init(size_t outlen, const void *key, size_t keylen); // false on invalid parameters
	void update(const void *in, size_t n);
	void final(uint8_t *out);                                 // writes outlen bytes
};
bool blake2b_ref(uint8_t *out, size_t outlen, const void *in, size_t inlen, const void *key, size_t keylen);

} // namespace model
