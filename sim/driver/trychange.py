#!/usr/bin/env python3
"""Development helper: build one variant/config of rxsim against /repo + one seeded change (or a patch file) in a scratch
directory outside /repo and /verif, run an rxsim worker on it and print a summary of the violations.

    trychange.py C11-s5 --variant tsan --config small-a -- --property C11 --tier quick --to 2000 --budget-s 20 --mode threads
"""
import argparse, collections, json, os, shutil, subprocess, sys, tempfile

HERE = os.path.dirname(os.path.abspath(__file__))
VERIF = os.path.dirname(os.path.dirname(HERE))


def main():
    ap = argparse.ArgumentParser()
    ap.add_argument("change", help="seeded id, mutant name or path of a patch file ('none' = unchanged tree)")
    ap.add_argument("--variant", default="plain")
    ap.add_argument("--config", default="small-a")
    ap.add_argument("--workers", type=int, default=8)
    argv = sys.argv[1:]
    rest = []
    if "--" in argv:
        rest = argv[argv.index("--") + 1:]
        argv = argv[:argv.index("--")]
    a = ap.parse_args(argv)
    patch = a.change
    if a.change != "none" and os.path.isfile(patch):
        patch = os.path.abspath(patch)
    elif a.change != "none":
        patch = os.path.join(VERIF, "seeded", a.change, "patch.diff")
    scratch = tempfile.mkdtemp(prefix="rxtry-")
    try:
        repo = os.path.join(scratch, "repo")
        subprocess.run(["rsync", "-a", "--exclude", "_build", "--exclude", ".git", "/repo/", repo + "/"], check=True)
        if a.change != "none":
            subprocess.run(["patch", "-p1", "-s", "-d", repo, "-i", patch], check=True)
        env = dict(os.environ, VERIF_REPO=repo, VERIF_BUILD_ROOT=os.path.join(scratch, "build"))
        exe = subprocess.run([sys.executable, os.path.join(HERE, "build.py"), "--variant", a.variant, "--config", a.config], env=env, stdout=subprocess.PIPE, text=True, check=True).stdout.strip().splitlines()[-1]
        procs = []
        for w in range(a.workers):
            cmd = [exe, "worker", "--seed", "1", "--from", str(w), "--step", str(a.workers), "--samples", "0"] + rest
            procs.append(subprocess.Popen(cmd, stdout=subprocess.PIPE, stderr=subprocess.DEVNULL, text=True))
        v = collections.Counter(); n = 0; first = {}
        for p in procs:
            out, _ = p.communicate()
            for line in out.splitlines():
                try:
                    j = json.loads(line)
                except Exception:
                    continue
                if j.get("type") != "run":
                    continue
                n += 1
                for x in j.get("violations", []):
                    k = x["cls"] + " " + x["sig"][:140]
                    v[k] += 1
                    first.setdefault(k, j.get("run"))
        print("runs", n)
        for k, c in v.most_common(12):
            print("%6d  first@%s  %s" % (c, first[k], k))
    finally:
        shutil.rmtree(scratch, ignore_errors=True)


if __name__ == "__main__":
    main()
