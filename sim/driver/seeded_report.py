#!/usr/bin/env python3
"""Merges the recorded runs of the checks against the seeded changes into seeded/results.json and prints the DESIGN table.

    seeded_report.py [--now file.jsonl ...]     (jsonl lines as printed by seeded.py)

first run = result of the machinery as it stood when the change arrived (rounds 1-2: kept in results.json; round 3/4:
seeded/round{3,4}_first_run.jsonl); now = the latest sweep given with --now (kept in seeded/latest_sweep.jsonl).
"""
import argparse, json, os, sys

VERIF = os.path.dirname(os.path.dirname(os.path.dirname(os.path.abspath(__file__))))
ROOT = os.path.join(VERIF, "seeded")


def jl(path):
    out = {}
    if os.path.exists(path):
        for line in open(path):
            line = line.strip()
            if line.startswith("{"):
                j = json.loads(line)
                out[j["id"]] = j
    return out


def main():
    ap = argparse.ArgumentParser()
    ap.add_argument("--now", nargs="*", default=[])
    a = ap.parse_args()
    old = {r["id"]: r for r in json.load(open(os.path.join(ROOT, "results.json")))}
    first = {}
    for f in ("round3_first_run.jsonl", "round4_first_run.jsonl", "round5_first_run.jsonl", "round6_first_run.jsonl", "round7_first_run.jsonl"):
        first.update(jl(os.path.join(ROOT, f)))
    latest_path = os.path.join(ROOT, "latest_sweep.jsonl")
    latest = jl(latest_path)
    for f in a.now:
        latest.update(jl(f))
    if a.now:
        with open(latest_path, "w") as fh:
            for k in sorted(latest):
                fh.write(json.dumps(latest[k]) + "\n")
    rows = []
    for sid in sorted(d for d in os.listdir(ROOT) if os.path.isfile(os.path.join(ROOT, d, "patch.diff"))):
        meta = json.load(open(os.path.join(ROOT, sid, "meta.json")))
        r = dict(old.get(sid, {"id": sid, "check": meta["property"]}))
        if sid in first:
            f = first[sid]
            r["first_run_rc"] = f["rc"]
            r["caught_first_run"] = f["rc"] == 1
            if f["rc"] == 1:
                r["signatures"] = [s.split(" count ")[0] for s in f["signatures"]]
        if sid in latest:
            n = latest[sid]
            r["now_rc"] = n["rc"]
            r["caught_now"] = n["rc"] == 1
            if n["rc"] == 1:
                r["signatures_now"] = [s.split(" count ")[0] for s in n["signatures"]]
        rows.append(r)
    json.dump(rows, open(os.path.join(ROOT, "results.json"), "w"), indent=1)
    print("| id | what it needs to manifest (short) | first run | now | signature that catches it |")
    print("|---|---|---|---|---|")
    for r in rows:
        meta = json.load(open(os.path.join(ROOT, r["id"], "meta.json")))
        needs = " ".join(meta.get("needs", "").split())[:170]
        fr = "caught" if r.get("caught_first_run") else ("exit 2" if r.get("first_run_rc") == 2 else "missed")
        nw = "caught" if r.get("caught_now") else ("?" if "caught_now" not in r else ("exit 2" if r.get("now_rc") == 2 else "missed"))
        sig = (r.get("signatures_now") or r.get("signatures") or [""])[0][:120].replace("|", "/")
        print("| %s | %s... | %s | %s | `%s` |" % (r["id"], needs.replace("|", "/"), fr, nw, sig))
    n = len(rows)
    print("\n%d changes; caught on first run: %d; caught now: %d" % (n, sum(1 for r in rows if r.get("caught_first_run")), sum(1 for r in rows if r.get("caught_now"))))


if __name__ == "__main__":
    main()
