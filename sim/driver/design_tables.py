#!/usr/bin/env python3
"""Renders the sensitivity / false-alarm / seeded-change tables of DESIGN.md from the recorded results
(sim/mutants/results*.json, seeded/results.json). Prints markdown."""
import json, os, re

VERIF = os.path.dirname(os.path.dirname(os.path.dirname(os.path.abspath(__file__))))


def short(s, n):
    s = " ".join(str(s).split())
    return s if len(s) <= n else s[:n - 3] + "..."


def main():
    mdir = os.path.join(VERIF, "sim", "mutants")
    muts = {m["id"]: m for m in json.load(open(os.path.join(mdir, "mutants.json")))}
    res = json.load(open(os.path.join(mdir, "results.json")))
    print("#### Hand-written mutants (`sim/mutants/mutants.json`, `mutants.py --tests`, 0.5 x quick budgets)\n")
    print("| mutant | what it does | suite | check | result | first signature |")
    print("|---|---|---|---|---|---|")
    for r in res:
        m = muts.get(r["id"], {})
        print("| %s | %s | %s | %s | %s | `%s` |" % (r["id"], short(m.get("why", ""), 150), r["tests"], r["property"], "caught" if r["rc"] == 1 else "exit %d" % r["rc"],
                                                short((r.get("signatures") or [""])[0].split(" count ")[0], 110).replace("|", "/")))
    print("\n%d of %d caught.\n" % (sum(1 for r in res if r["rc"] == 1), len(res)))
    ben = {m["id"]: m for m in json.load(open(os.path.join(mdir, "benign.json")))}
    resb = json.load(open(os.path.join(mdir, "results_benign.json")))
    print("#### Behaviour-preserving changes (`sim/mutants/benign.json`, `mutants.py --set benign --tests`)\n")
    print("| change | what it does | suite | check | result |")
    print("|---|---|---|---|---|")
    for r in resb:
        m = ben.get(r["id"], {})
        print("| %s | %s | %s | %s | %s |" % (r["id"], short(m.get("why", ""), 170), r["tests"], r["property"], "pass (exit 0)" if r["rc"] == 0 else "exit %d" % r["rc"]))
    print("\n%d of %d pass.\n" % (sum(1 for r in resb if r["rc"] == 0), len(resb)))
    rows = json.load(open(os.path.join(VERIF, "seeded", "results.json")))

    def rnd(sid):
        n = int(re.search(r"-s(\d+)$", sid).group(1))
        c14 = sid.startswith("C14")
        if c14:
            return 1 if n <= 2 else 2 if n <= 5 else 3 if n <= 7 else 4 if n <= 9 else 5 if n <= 11 else 6 if n <= 13 else 7
        return 1 if n <= 2 else 2 if n <= 4 else 3 if n <= 6 else 4 if n <= 8 else 5 if n <= 10 else 6 if n <= 12 else 7

    print("#### Seeded changes by round\n")
    print("| round | changes | caught on first run | caught now | not caught now |")
    print("|---|---|---|---|---|")
    for k in range(1, 8):
        rr = [r for r in rows if rnd(r["id"]) == k]
        nc = [r["id"] for r in rr if not r.get("caught_now")]
        print("| %d | %d | %d | %d | %s |" % (k, len(rr), sum(1 for r in rr if r.get("caught_first_run")), sum(1 for r in rr if r.get("caught_now")), ", ".join(nc) or "-"))
    print()
    print("#### Rounds 3-7 in detail\n")
    print("| id | what it needs to manifest (short) | first run | now | signature that catches it |")
    print("|---|---|---|---|---|")
    for r in rows:
        if rnd(r["id"]) < 3:
            continue
        meta = json.load(open(os.path.join(VERIF, "seeded", r["id"], "meta.json")))
        fr = "caught" if r.get("caught_first_run") else ("exit 2" if r.get("first_run_rc") == 2 else "missed")
        nw = "caught" if r.get("caught_now") else ("?" if "caught_now" not in r else ("exit 2" if r.get("now_rc") == 2 else "missed"))
        sig = (r.get("signatures_now") or r.get("signatures") or [""])[0]
        print("| %s | %s | %s | %s | `%s` |" % (r["id"], short(meta.get("needs", ""), 150).replace("|", "/"), fr, nw, short(sig, 100).replace("|", "/")))


if __name__ == "__main__":
    main()
