#!/usr/bin/env python3
"""Runs the checks against the seeded changes kept under /verif/seeded/<id>/ (patch.diff + meta.json).
Each change is applied to a scratch copy of /repo outside /repo and /verif (VERIF_REPO=<scratch>), the check named in
meta.json is run with its evidence/replays redirected (VERIF_OUT), and the scratch copy is removed.

    seeded.py [--only id,id] [--tier quick] [--budget-scale 0.5]
"""
import argparse, json, os, shutil, subprocess, sys, tempfile, time

HERE = os.path.dirname(os.path.abspath(__file__))
VERIF = os.path.dirname(os.path.dirname(HERE))


def main():
    ap = argparse.ArgumentParser()
    ap.add_argument("--only", default="")
    ap.add_argument("--tier", default="quick")
    ap.add_argument("--budget-scale", type=float, default=0.5)
    ap.add_argument("--repo", default="/repo")
    ap.add_argument("--keep-replays", default="")
    a = ap.parse_args()
    root = os.path.join(VERIF, "seeded")
    only = set(x for x in a.only.split(",") if x)
    results = []
    for sid in sorted(os.listdir(root)):
        d = os.path.join(root, sid)
        if not os.path.isfile(os.path.join(d, "patch.diff")) or (only and sid not in only):
            continue
        meta = json.load(open(os.path.join(d, "meta.json")))
        scratch = tempfile.mkdtemp(prefix="rxseed-")
        try:
            repo = os.path.join(scratch, "repo")
            subprocess.run(["rsync", "-a", "--exclude", "_build", "--exclude", ".git", a.repo + "/", repo + "/"], check=True)
            r = subprocess.run(["patch", "-p1", "-s", "-d", repo, "-i", os.path.join(d, "patch.diff")], stdout=subprocess.PIPE, stderr=subprocess.STDOUT, text=True)
            if r.returncode != 0:
                results.append({"id": sid, "error": "patch does not apply: " + r.stdout[-300:]})
                print(json.dumps(results[-1]), flush=True)
                continue
            env = dict(os.environ, VERIF_REPO=repo, VERIF_OUT=os.path.join(scratch, "out"), VERIF_BUILD_ROOT=os.path.join(scratch, "build"))
            props = meta.get("checks") or [meta["property"]]
            for prop in props:
                t0 = time.time()
                r = subprocess.run([sys.executable, os.path.join(HERE, "check.py"), "--property", prop, "--tier", a.tier, "--budget-scale", str(a.budget_scale)],
                                   env=env, stdout=subprocess.PIPE, stderr=subprocess.PIPE, text=True)
                sigs = [l.split("violation:", 1)[1].strip()[:200] for l in r.stderr.splitlines() if "violation:" in l]
                other = [l for l in r.stdout.splitlines() if l.startswith("UNCONFIRMED")]
                res = {"id": sid, "check": prop, "rc": r.returncode, "wall_s": round(time.time() - t0, 1), "signatures": sigs[:3], "unconfirmed": other[:2]}
                if r.returncode == 2:
                    res["stderr_tail"] = r.stderr.splitlines()[-6:]
                results.append(res)
                print(json.dumps(res), flush=True)
                if a.keep_replays and r.returncode == 1:
                    dst = os.path.join(a.keep_replays, sid)
                    os.makedirs(dst, exist_ok=True)
                    for f in os.listdir(os.path.join(scratch, "out", "replays")):
                        shutil.copy(os.path.join(scratch, "out", "replays", f), dst)
        finally:
            shutil.rmtree(scratch, ignore_errors=True)
    if not only:
        json.dump(results, open(os.path.join(root, "results.json"), "w"), indent=1)


if __name__ == "__main__":
    main()
