#!/usr/bin/env python3
"""rxsim check driver.

    check.py --property C03 [--tier quick|thorough] [--seed N]
    check.py --replay replays/C03-....json

Exit codes: 0 property held on everything explored (KNOWN-FINDING lines possible), 1 violation (a line
"VIOLATION property=<id> replay=<path>" is printed), 2 infrastructure error (build failure, determinism
gate, replay gate) -- never a verdict.
"""
import argparse, collections, json, os, re, select, subprocess, sys, threading, time, hashlib, bisect

HERE = os.path.dirname(os.path.abspath(__file__))
VERIF = os.path.dirname(os.path.dirname(HERE))
sys.path.insert(0, HERE)
import build as rxbuild  # noqa: E402
import propcfg            # noqa: E402

try:
    NCPU = len(os.sched_getaffinity(0)) or 4
except Exception:
    NCPU = os.cpu_count() or 4
OUT = os.environ.get("VERIF_OUT", VERIF)   # mutant / seeded-change runs write their evidence and replays elsewhere
REPLAYS = os.path.join(OUT, "replays")
EVIDENCE = os.path.join(OUT, "evidence")
KNOWN = os.path.join(VERIF, "known_findings.json")


class Infra(Exception):
    pass


def log(*a):
    print("[check]", *a, file=sys.stderr, flush=True)


# ---------------------------------------------------------------------------------- symbolisation
class Symbolizer:
    """maps lib+0xOFF tokens of TSan signatures to function / object names of librx.so (via nm)"""

    def __init__(self, exe):
        self.table = None
        self.lib = os.path.join(os.path.dirname(exe), "librx.so")

    def load(self):
        out = subprocess.run(["nm", "-C", "--defined-only", "-n", self.lib], stdout=subprocess.PIPE, text=True).stdout
        tab = []
        for line in out.splitlines():
            m = re.match(r"^([0-9a-f]+) (\w) (.*)$", line)
            if m:
                tab.append((int(m.group(1), 16), m.group(3)))
        tab.sort()
        self.addrs = [a for a, _ in tab]
        self.names = [n for _, n in tab]
        self.table = True

    def name(self, off):
        if self.table is None:
            self.load()
        i = bisect.bisect_right(self.addrs, off) - 1
        if i < 0:
            return "lib+0x%x" % off
        n = self.names[i]
        n = re.sub(r"\(.*\)$", "", n)       # drop the parameter list
        n = re.sub(r"\[abi:\w+\]", "", n)
        # drop template arguments: which instantiation reports first depends on TSan-internal state
        prev = None
        while prev != n:
            prev = n
            n = re.sub(r"<[^<>]*>", "", n)
        return n

    def sig(self, s):
        if "lib+0x" not in s:
            return s
        parts = s.split(" ")
        if parts and parts[0] == "race" and len(parts) >= 3:
            acc = []
            for p in parts[1:3]:
                m = re.match(r"lib\+0x([0-9a-f]+)\((\w)(\d+)\)", p)
                acc.append(self.name(int(m.group(1), 16)) if m else p)
            acc.sort()
            rest = " ".join(parts[3:])
            rest = re.sub(r"lib\+0x([0-9a-f]+)", lambda m: self.name(int(m.group(1), 16)), rest)
            return "race %s by %s / %s" % (rest, acc[0], acc[1])
        return re.sub(r"lib\+0x([0-9a-f]+)", lambda m: self.name(int(m.group(1), 16)), s)


# ---------------------------------------------------------------------------------- workers
class Batch:
    def __init__(self, spec, prop, tier, seed, exe):
        self.spec, self.prop, self.tier, self.seed, self.exe = spec, prop, tier, seed, exe
        self.runs = {}           # index -> summary dict (without plan)
        self.violations = []     # (index, viol dict, plan)
        self.samples = []
        self.invalid = []
        self.lock = threading.Lock()
        self.restarts = 0
        self.unreported_deaths = 0
        self.hangs = 0
        self.wall = 0.0
        self.hello = None
        self.bye = []
        self.proc_runs = {}      # worker process launch id -> run indices in the order that process executed them
        self.run_proc = {}       # run index -> launch id
        self.proc_cold = {}      # launch id -> the process started cold (its first run carried cold: true)
        self.nlaunch = 0

    def worker_cmd(self, w, nworkers, start, total, budget, samples):
        cmd = [self.exe, "worker", "--property", self.prop, "--tier", self.tier, "--seed", str(self.seed), "--from", str(start), "--to", str(total),
               "--step", str(nworkers), "--budget-s", "%.1f" % budget, "--samples", str(samples)]
        if self.spec.get("mode"):
            cmd += ["--mode", self.spec["mode"]]
        # every fourth worker process starts cold: no warm-up history, its first plan is the first thing the library sees in
        # that process (one-time initialisations then happen under the plan's threads and faults)
        if w % 4 == 1 and start == w and self.spec.get("mode", "") in ("", "threads", "preempt") and self.prop != "C11":
            cmd.append("--cold")
        return cmd

    def pin_fn(self, w):
        """pin a worker to one CPU of this process's affinity set (a hand-off between parked threads is ~10x cheaper
        on one CPU); silently unpinned if the platform refuses"""
        if not self.spec.get("pin", True):
            return None
        try:
            cpus = sorted(os.sched_getaffinity(0))
        except Exception:
            return None
        if not cpus:
            return None
        cpu = cpus[w % len(cpus)]

        def fn():
            try:
                os.sched_setaffinity(0, {cpu})
            except Exception:
                pass
        return fn

    def run(self, total=None, nworkers=None, budget=None, collect_samples=True):
        spec = self.spec
        total = total if total is not None else spec["runs"]
        nworkers = nworkers or min(spec.get("workers", NCPU), NCPU, max(1, total))
        budget = budget if budget is not None else spec.get("budget_s", 60)
        t0 = time.time()
        deadline = t0 + budget + 30

        def drive(w):
            start = w
            tries = 0
            while start < total and time.time() < deadline:
                remaining = max(1.0, budget - (time.time() - t0))
                cmd = self.worker_cmd(w, nworkers, start, total, remaining, 1 if (collect_samples and w == 0 and start == 0) else 0)
                p = subprocess.Popen(cmd, stdout=subprocess.PIPE, stderr=subprocess.DEVNULL, preexec_fn=self.pin_fn(w))
                with self.lock:
                    self.nlaunch += 1
                    launch = self.nlaunch
                    self.proc_runs[launch] = []
                    self.proc_cold[launch] = "--cold" in cmd
                last_idx = None
                got_bye = False
                hung = False
                warm_crash = False
                fd = p.stdout.fileno()
                buf = b""
                hang_s = spec.get("hang_s", 900 if spec["config"] == "shipped" else 240)
                while True:
                    ready, _, _ = select.select([fd], [], [], hang_s)
                    if not ready:
                        hung = True      # no result line for hang_s seconds: never wait forever on a worker
                        p.kill()
                        break
                    chunk = os.read(fd, 1 << 16)
                    if not chunk:
                        break
                    buf += chunk
                    while b"\n" in buf:
                        line, buf = buf.split(b"\n", 1)
                        line = line.strip()
                        if not line:
                            continue
                        try:
                            j = json.loads(line)
                        except Exception:
                            continue
                        t = j.get("type")
                        if t == "hello":
                            self.hello = j
                        elif t == "bye":
                            got_bye = True
                            with self.lock:
                                self.bye.append(j)
                        elif t == "run":
                            if j["run"] >= (1 << 62):
                                # crash inside the per-process warm-up history: report it once, do not restart this worker
                                j["run"] = -1 - w
                                self.absorb(j)
                                warm_crash = True
                                continue
                            last_idx = j["run"]
                            with self.lock:
                                self.proc_runs[launch].append(j["run"])
                                self.run_proc[j["run"]] = launch
                            self.absorb(j)
                p.wait()
                if warm_crash:
                    break
                if hung:
                    with self.lock:
                        self.hangs += 1
                if got_bye:
                    break
                # worker died: either it reported a crash for run last_idx, or it vanished
                with self.lock:
                    self.restarts += 1
                if last_idx is None or (last_idx in self.runs and not self.runs[last_idx].get("crashed")):
                    # died without a crash line for the run in flight
                    nxt = (last_idx + nworkers) if last_idx is not None else start
                    with self.lock:
                        self.unreported_deaths += 1
                        self.runs[nxt] = {"run": nxt, "crashed": True, "unreported": True, "fp": "dead", "violations": []}
                    start = nxt + nworkers
                else:
                    start = last_idx + nworkers
                lr = self.runs.get(last_idx) if last_idx is not None else None
                after_pf = bool(lr and lr.get("crashed") and lr.get("violations") and all(v["cls"].startswith("AFTER_MPROTECT_FAULT_") for v in lr["violations"]))
                if not after_pf:    # a crash that follows an injected mprotect refusal is expected of the unchanged library
                    tries += 1
                if tries > 12:   # a build that crashes again and again has shown enough; each restart costs a warm-up
                    break

        threads = [threading.Thread(target=drive, args=(w,)) for w in range(nworkers)]
        for t in threads:
            t.start()
        for t in threads:
            t.join()
        self.wall = time.time() - t0
        return self

    def predecessors(self, idx):
        """run indices the same worker process executed before run idx, oldest first"""
        launch = self.run_proc.get(idx)
        if launch is None:
            return []
        order = self.proc_runs.get(launch, [])
        return order[:order.index(idx)] if idx in order else []

    def first_of_cold_process(self, idx):
        launch = self.run_proc.get(idx)
        order = self.proc_runs.get(launch, [])
        return bool(launch is not None and self.proc_cold.get(launch) and order and order[0] == idx)

    def genplan(self, idx):
        cmd = [self.exe, "genplan", "--property", self.prop, "--tier", self.tier, "--seed", str(self.seed), "--index", str(idx)]
        if self.spec.get("mode"):
            cmd += ["--mode", self.spec["mode"]]
        r = subprocess.run(cmd, stdout=subprocess.PIPE, stderr=subprocess.DEVNULL, text=True, timeout=300)
        for line in r.stdout.splitlines():
            line = line.strip()
            if line.startswith("{"):
                return json.loads(line)
        return None

    def absorb(self, j):
        plan = j.pop("plan", None)
        with self.lock:
            idx = j["run"]
            self.runs[idx] = j
            if j.get("invalid"):
                self.invalid.append((idx, j.get("invalid_reason", ""), plan))
            if plan is not None and not j.get("violations") and len(self.samples) < 3:
                self.samples.append(plan)
            for v in j.get("violations", []):
                p2 = plan
                if j.get("crashed") and plan is not None:
                    p2 = dict(plan)
                    p2["sched"] = j.get("recorded", [])
                    p2["replay"] = True
                self.violations.append((idx, v, p2))


def replay_once(exe, plan, timeout=600):
    os.makedirs(REPLAYS, exist_ok=True)
    tmp = os.path.join(REPLAYS, "tmp-%d-%d.json" % (os.getpid(), threading.get_ident()))
    with open(tmp, "w") as f:
        json.dump(plan, f)
    try:
        r = subprocess.run([exe, "replay", "--file", tmp], stdout=subprocess.PIPE, stderr=subprocess.DEVNULL, text=True, timeout=timeout)
    except subprocess.TimeoutExpired:
        return {"timeout": True, "violations": []}
    finally:
        try:
            os.unlink(tmp)
        except OSError:
            pass
    res = None
    for line in r.stdout.splitlines():
        try:
            j = json.loads(line)
        except Exception:
            continue
        if j.get("type") == "run":
            res = j
    if res is None:
        return {"dead": True, "rc": r.returncode, "violations": []}
    return res


def has_violation(res, cls, sig, sym):
    for v in res.get("violations", []):
        if v["cls"] == cls and sym.sig(v["sig"]) == sig:
            return True
    return False


def race_loc(sig):
    m = re.match(r"race (loc=\S+)", sig)
    if not m:
        return None
    loc = m.group(1)
    return "loc=heap" if loc.startswith("loc=heap") else loc


def has_violation_other_config(res, cls, sig, sym):
    """same violation on another configuration: exact class+signature, or for TSan races the same racy location
    (which pair of accesses is reported, and whether the earlier stack can be restored, depends on the configuration)"""
    if has_violation(res, cls, sig, sym):
        return True
    if cls == "TSAN_RACE":
        want = race_loc(sig)
        for v in res.get("violations", []):
            if v["cls"] == cls and race_loc(sym.sig(v["sig"])) == want:
                return True
    return False


def with_process_history(exe, sym, batch, idx, plan, cls, sig, budget_s=240):
    """returns plan + {"prelude": [...]} that reproduces (cls, sig) twice in fresh processes, or None"""
    t0 = time.time()
    preds = batch.predecessors(idx)
    if not preds:
        return None
    cache = {}

    def plan_of(i):
        if i not in cache:
            cache[i] = batch.genplan(i)
            if cache[i] is not None and batch.first_of_cold_process(i):
                cache[i]["cold"] = True     # the worker process started with this plan, cold
        return cache[i]

    def reproduces(prelude, times=2):
        q = dict(plan)
        q["prelude"] = prelude
        q["replay"] = True
        for _ in range(times):
            if time.time() - t0 > budget_s:
                return False
            r = replay_once(exe, q, timeout=600)
            if not has_violation(r, cls, sig, sym):
                return False
        return True

    k = 1
    chosen = None
    while True:
        sel = preds[-k:]
        if batch.first_of_cold_process(preds[0]) and preds[0] not in sel:
            sel = [preds[0]] + sel      # a process that started cold: what its first plan left behind is part of every later history
        pl = [plan_of(i) for i in sel]
        if all(p is not None for p in pl) and reproduces(pl):
            chosen = pl
            break
        if k >= len(preds) or k >= 64 or time.time() - t0 > budget_s:
            break
        k = min(len(preds), k * 2)
    if chosen is None:
        return None
    # drop prelude plans that are not needed (oldest first)
    i = 0
    while i < len(chosen) and len(chosen) > 1 and time.time() - t0 < budget_s:
        if chosen[i].get("cold"):
            i += 1            # the cold first plan of the process is what makes the process cold: keep it
            continue
        cand = chosen[:i] + chosen[i + 1:]
        if reproduces(cand, times=1):
            chosen = cand
        else:
            i += 1
    q = dict(plan)
    q["prelude"] = chosen
    q["replay"] = True
    return q


# ---------------------------------------------------------------------------------- minimisation
def minimise(exe, plan, cls, sig, sym, budget_s=90):
    """ddmin over ops, schedule switches, then argument simplification; the same class+signature must persist"""
    t0 = time.time()
    tests = [0]

    def fails(p):
        if time.time() - t0 > budget_s:
            return False
        tests[0] += 1
        r = replay_once(exe, p, timeout=120)
        if r.get("invalid"):
            return False
        return has_violation(r, cls, sig, sym)

    def ddmin_list(p, key):
        items = list(p[key])
        n = 2
        while len(items) >= 2 and time.time() - t0 < budget_s:
            chunk = max(1, len(items) // n)
            reduced = False
            for i in range(0, len(items), chunk):
                cand = items[:i] + items[i + chunk:]
                q = dict(p); q[key] = cand
                if fails(q):
                    items = cand
                    n = max(n - 1, 2)
                    reduced = True
                    break
            if not reduced:
                if chunk == 1:
                    break
                n = min(len(items), n * 2)
        # final single-element pass
        i = 0
        while i < len(items) and time.time() - t0 < budget_s:
            cand = items[:i] + items[i + 1:]
            q = dict(p); q[key] = cand
            if cand and fails(q):
                items = cand
            else:
                i += 1
        q = dict(p); q[key] = items
        return q

    p = dict(plan)
    p["replay"] = True
    if "ops" in p:
        p = ddmin_list(p, "ops")
        if p.get("sched"):
            q = dict(p); q["sched"] = []
            p = q if fails(q) else ddmin_list(p, "sched")
        # collapse to fewer tasks / phases is implied by dropped ops; now simplify arguments
        ops = [dict(o) for o in p["ops"]]
        for i in range(len(ops)):
            for field, simple in (("env", None), ("heap", None), ("fault", None), ("pre", None), ("pfault", None), ("key", 0), ("input", 0)):
                if field not in ops[i] or time.time() - t0 > budget_s:
                    continue
                if simple is not None and ops[i][field] == simple:
                    continue
                cand = [dict(o) for o in ops]
                if simple is None:
                    if field == "fault":
                        continue  # a fault is what makes a creating call return NULL; keep
                    del cand[i][field]
                else:
                    cand[i][field] = simple
                q = dict(p); q["ops"] = cand
                if fails(q):
                    ops = cand
            if "flags" in ops[i]:
                for bit in (128, 64, 32, 16, 8, 4, 2, 1):
                    if ops[i].get("flags", 0) & bit and time.time() - t0 < budget_s:
                        cand = [dict(o) for o in ops]
                        cand[i]["flags"] = ops[i]["flags"] & ~bit
                        if cand[i]["flags"] == 0:
                            del cand[i]["flags"]
                        q = dict(p); q["ops"] = cand
                        if fails(q):
                            ops = cand
            if ops[i].get("k") == "init_dataset" and ops[i].get("count", 0) > 1:
                for c in (1, ops[i]["count"] // 2):
                    cand = [dict(o) for o in ops]
                    cand[i]["count"] = c
                    q = dict(p); q["ops"] = cand
                    if time.time() - t0 < budget_s and fails(q):
                        ops = cand
                        break
        p["ops"] = ops
    elif "steps" in p:
        p = ddmin_list(p, "steps")
    if p.get("prelude"):
        # shrink the earlier histories as well: op lists of each prelude plan
        for pi in range(len(p["prelude"])):
            if time.time() - t0 > budget_s:
                break
            pre = p["prelude"][pi]
            key = "ops" if "ops" in pre else "steps"
            items = list(pre.get(key, []))
            n = 2
            while len(items) >= 2 and time.time() - t0 < budget_s:
                chunk = max(1, len(items) // n)
                reduced = False
                for i in range(0, len(items), chunk):
                    cand = items[:i] + items[i + chunk:]
                    q = dict(p); q["prelude"] = list(p["prelude"]); q["prelude"][pi] = dict(pre, **{key: cand})
                    if cand and fails(q):
                        items = cand; pre = dict(pre, **{key: cand}); p = q
                        n = max(n - 1, 2); reduced = True
                        break
                if not reduced:
                    if chunk == 1:
                        break
                    n = min(len(items), n * 2)
    p["note"] = "minimised from %d to %d %s in %d replays" % (len(plan.get("ops", plan.get("steps", []))), len(p.get("ops", p.get("steps", []))), "ops" if "ops" in p else "steps", tests[0])
    return p, tests[0]


# ---------------------------------------------------------------------------------- known findings
def load_known():
    if not os.path.exists(KNOWN):
        return []
    return json.load(open(KNOWN)).get("findings", [])


def known_match(prop, cls, sig):
    for f in load_known():
        if f.get("status") != "known":
            continue
        if f.get("property") == prop and f.get("cls") == cls and f.get("sig") == sig:
            return f
    return None


# ---------------------------------------------------------------------------------- main check
def run_check(prop, tier, seed, budget_scale=1.0):
    t_start = time.time()
    cfg = propcfg.PROPERTIES[prop]
    batches_spec = cfg["tiers"][tier]
    relevant = set(cfg["classes"])
    all_batches = []
    exes = {}
    for spec in batches_spec:
        key = (spec["variant"], spec["config"])
        if key not in exes:
            log("building", key)
            try:
                exes[key] = rxbuild.build(*key)
            except Exception as e:
                raise Infra("build failed for %s: %s" % (key, e))
    syms = {k: Symbolizer(v) for k, v in exes.items()}

    evidence_batches = []
    found = collections.OrderedDict()   # (cls, sig) -> dict(plan, batchkey, count, idx)
    cross = collections.Counter()
    total_runs = 0
    shapes, ilvs = set(), set()
    agg = collections.Counter()
    probes = collections.Counter()
    fired = [0, 0, 0, 0]
    reqs = [0, 0, 0, 0]
    samples = []
    invalid_total = 0
    invalid_notes = []
    infra_problems = []

    for spec in batches_spec:
        key = (spec["variant"], spec["config"])
        exe = exes[key]
        sym = syms[key]
        spec = dict(spec)
        spec["budget_s"] = spec.get("budget_s", 60) * budget_scale
        log("batch", spec.get("name", ""), key, "runs<=%d budget=%ds" % (spec["runs"], spec["budget_s"]))
        b = Batch(spec, prop, tier, seed, exe).run()
        all_batches.append((spec, b, key))
        nrun = len(b.runs)
        total_runs += nrun
        for idx, r in b.runs.items():
            if "shape" in r and r.get("ops", 0) >= 3:
                shapes.add((spec["variant"], spec["config"], r["shape"]))
            if r.get("ilv") and r.get("switches", 0) > 0:
                ilvs.add(r["ilv"])
            agg["ops"] += r.get("ops", 0); agg["steps"] += r.get("steps", 0); agg["switches"] += r.get("switches", 0); agg["yields"] += r.get("yields", 0)
            agg["events"] += r.get("events", 0)
            if r.get("tasks", 1) > 1:
                agg["multi_task_runs"] += 1
            for k, v in r.get("probes", {}).items():
                probes[k] += v
            for k, v in r.get("seam", {}).items():
                probes["seam_" + k] += v
            for i in range(4):
                fired[i] += r.get("fired", [0, 0, 0, 0])[i]
                reqs[i] += r.get("req", [0, 0, 0, 0])[i]
        invalid_total += len(b.invalid)
        # a generated plan that leaves the contract model is skipped, never executed and never a verdict; it is a defect of the
        # generator (rxsim lint finds none in 60 000 plans per generator), so a handful is only counted, a systematic problem
        # (more than 1 in 200 plans of a batch) is an infrastructure error
        gen_invalid = [(idx, why) for idx, why, plan in b.invalid if not why.startswith("model:")]
        invalid_notes.extend("batch %s plan %d: %s" % (spec.get("name"), idx, why) for idx, why in gen_invalid[:3])
        if len(gen_invalid) * 200 > max(nrun, 1):
            infra_problems.append("%d of %d generated plans of batch %s are invalid, e.g. plan %d: %s" % (len(gen_invalid), nrun, spec.get("name"), gen_invalid[0][0], gen_invalid[0][1]))
        if b.hangs:
            infra_problems.append("%d worker(s) produced no result line for too long and were killed in batch %s" % (b.hangs, spec.get("name")))
        if b.unreported_deaths:
            infra_problems.append("%d worker deaths without a crash report in batch %s" % (b.unreported_deaths, spec.get("name")))
        for idx, v, plan in b.violations:
            s = sym.sig(v["sig"])
            if key[0] == "assert" and v["cls"] == "CRASH_ABRT":
                # the library's own precondition assert fired on a generated history: the generator left the
                # documented contract -- a defect of this machinery, never a verdict about RandomX
                infra_problems.append("contract audit: library assert fired in run %d (%s)" % (idx, s))
                continue
            if v["cls"] in relevant:
                k = (v["cls"], s)
                if k not in found:
                    found[k] = {"plan": plan, "key": key, "count": 0, "idx": idx, "detail": v.get("detail", ""), "opkind": v.get("opkind", ""), "batch": b}
                elif found[k]["plan"] is None and plan is not None:
                    found[k].update({"plan": plan, "key": key, "idx": idx, "detail": v.get("detail", ""), "batch": b})
                elif key[1] == "shipped" and found[k]["key"][1] != "shipped" and plan is not None:
                    # an occurrence on the shipped configuration needs no cross-configuration confirmation: prefer it
                    found[k].update({"plan": plan, "key": key, "idx": idx, "detail": v.get("detail", ""), "batch": b})
                found[k]["count"] += 1
            else:
                cross[(v["cls"], s)] += 1
        samples += b.samples[:2]
        evidence_batches.append({"name": spec.get("name", ""), "variant": spec["variant"], "config": spec["config"], "mode": spec.get("mode", ""), "runs": nrun,
                                 "wall_s": round(b.wall, 2), "runs_per_hour": int(nrun / max(b.wall, 1e-3) * 3600), "worker_restarts": b.restarts,
                                 "invalid_plans": len(b.invalid)})
        if nrun == 0:
            infra_problems.append("batch %s executed no run" % spec.get("name"))

    # ---------------- determinism gate: re-run a sample in other processes at another worker count
    gate_n = cfg.get("gate", {}).get(tier, 32)
    gate_checked = 0
    history_dependent = [0]
    for spec, b, key in all_batches:
        if spec.get("mode") == "enum" and False:
            continue
        n = min(spec.get("gate", gate_n), len(b.runs))
        if n == 0:
            continue
        idxs = sorted(b.runs.keys())[:n]
        top = idxs[-1] + 1
        g = Batch(dict(spec, workers=3), prop, tier, seed, exes[key]).run(total=top, nworkers=3, budget=max(60, spec.get("budget_s", 60)), collect_samples=False)
        for i in idxs:
            a, c = b.runs.get(i), g.runs.get(i)
            if a is None or c is None:
                continue
            gate_checked += 1
            if a.get("fp") != c.get("fp") or bool(a.get("crashed")) != bool(c.get("crashed")):
                if a.get("crashed") and c.get("crashed"):
                    continue
                if a.get("sfp") is not None and a.get("sfp") == c.get("sfp") and not a.get("crashed") and not c.get("crashed"):
                    # same results, different event trace: the library keeps state across histories of one process (a memo,
                    # a lazily grown table) that changes what it requests, not what it returns - not the simulator's doing
                    history_dependent[0] += 1
                    continue
                infra_problems.append("determinism gate: run %d of batch %s has fingerprints %s vs %s" % (i, spec.get("name"), a.get("fp"), c.get("fp")))
    if infra_problems:
        for p in infra_problems[:10]:
            log("INFRA:", p)

    # ---------------- violations: replay gate, minimise, confirm, known findings
    out_lines = []
    n_viol = 0
    known_hits = []
    unconfirmed = []
    os.makedirs(REPLAYS, exist_ok=True)
    handled = 0
    for (cls, sig), info in sorted(found.items(), key=lambda kv: 0 if kv[1]["key"][1] == "shipped" else 1):
        # up to 3 reported violations; candidates that end as unconfirmed anomalies (or fail the replay gate) do not use up the
        # slots of real ones, but the total work is bounded
        if n_viol >= cfg.get("max_reported", 3) or handled >= 2 * cfg.get("max_reported", 3):
            break
        plan = info["plan"]
        key = info["key"]
        exe, sym = exes[key], syms[key]
        if plan is None:
            infra_problems.append("violation %s without plan" % cls)
            continue
        kf = known_match(prop, cls, sig)
        # replay gate: two fresh processes must reproduce class+signature
        ok = 0
        for _ in range(2):
            r = replay_once(exe, plan)
            if has_violation(r, cls, sig, sym):
                ok += 1
        if ok < 2:
            # Not reproducible from the plan alone: the library may carry state from one history into the next (a static,
            # a thread_local, a recycled buffer). Replay the violating plan after the plans the same worker process had
            # executed before it, shortest sufficient suffix first.
            hist = with_process_history(exe, sym, info["batch"], info["idx"], plan, cls, sig)
            if hist is None:
                infra_problems.append("replay gate: %s / %s reproduced %d of 2 times (also not with the process history of its worker)" % (cls, sig, ok))
                continue
            plan = hist
            log("violation needs process history:", cls, sig, "prelude of", len(plan["prelude"]), "plan(s)")
        if kf is not None:
            known_hits.append((cls, sig, kf))
            continue
        handled += 1
        mplan, ntests = minimise(exe, plan, cls, sig, sym, budget_s=cfg.get("minimise_s", 60))
        ok = sum(1 for _ in range(2) if has_violation(replay_once(exe, mplan), cls, sig, sym))
        if ok < 2:
            mplan = plan
        confirm = "not_needed"
        # Confirmation on the shipped configuration guards against artefacts of the reduced constants (a digest,
        # dataset item or crash that only a reduced configuration produces). A race between two library accesses,
        # a W+X page, a leak or a wrong return value is a fact about the code and needs no confirmation.
        needs_confirm = cls in ("DIGEST_MISMATCH", "CACHE_CHECKSUM", "DATASET_ITEM_MISMATCH", "DATASET_WRITE_OUTSIDE", "DATASET_MODEL_DISAGREE", "MODEL_NOISE_DEPENDENCE",
                                "UNEXPECTED_NULL", "TERMINATE") or cls.startswith("CRASH_")
        if key[1] != "shipped" and cfg.get("confirm_on_shipped", True) and needs_confirm:
            skey = (key[0] if key[0] != "assert" else "plain", "shipped")
            try:
                sexe = rxbuild.build(*skey)
                ssym = Symbolizer(sexe)
                r = replay_once(sexe, mplan, timeout=1800)
                if r.get("invalid"):
                    confirm = "not_runnable_on_shipped(%s)" % r.get("invalid_reason", "")[:80]
                elif has_violation_other_config(r, cls, sig, ssym):
                    confirm = "reproduced_on_shipped"
                else:
                    # the minimised schedule may be too coarse for the shipped constants: try the original plan
                    r2 = replay_once(sexe, plan, timeout=1800)
                    if not r2.get("invalid") and has_violation_other_config(r2, cls, sig, ssym):
                        confirm = "reproduced_on_shipped(original plan)"
                    else:
                        confirm = "not_reproduced_on_shipped"
            except Exception as e:
                confirm = "shipped_build_failed(%s)" % str(e)[:80]
        mplan["expect"] = {"cls": cls, "sig": sig, "variant": key[0], "config": key[1], "confirm": confirm, "detail": info["detail"], "property": prop}
        h = hashlib.sha1((cls + sig).encode()).hexdigest()[:8]
        path = os.path.join(REPLAYS, "%s-%s-%s.json" % (prop, seed, h))
        with open(path, "w") as f:
            json.dump(mplan, f, indent=1)
        if confirm == "not_reproduced_on_shipped":
            unconfirmed.append({"cls": cls, "sig": sig, "replay": path})
            print("UNCONFIRMED-ANOMALY property=%s (reduced configuration only, not a verdict) %s %s replay=%s" % (prop, cls, sig, path))
            continue
        n_viol += 1
        out_lines.append("VIOLATION property=%s replay=%s" % (prop, path))
        log("violation:", cls, sig, "count", info["count"], "minimised in", ntests, "replays ->", path, confirm)

    wall = time.time() - t_start
    level = cfg["level"]
    ev = {
        "property_id": prop, "tier": tier, "seed": seed, "level": level,
        "coverage": {
            "evaluations": total_runs,
            "distinct_nontrivial": len(shapes),
            "rule": cfg["rule"],
            "samples": samples[:3] if samples else [{"note": "no sample captured"}],
            "exhaustive": bool(cfg.get("exhaustive", {}).get(tier, False)),
            "batches": evidence_batches,
            "simulated_runs_per_hour": int(total_runs / max(wall, 1e-3) * 3600),
            "simulated_time": "RandomX has no clock or timer; progress is counted in scheduler steps",
            "scheduler_steps": agg["steps"], "context_switches": agg["switches"], "yield_points_passed": agg["yields"], "events_logged": agg["events"],
            "ops_executed": agg["ops"], "multi_task_runs": agg["multi_task_runs"],
            "distinct_interleavings": len(ilvs),
            "distinct_interleavings_measure": "hash of the (from-task, to-task, site) sequence over every scheduling decision that switched threads",
            "allocation_requests": {"operator_new": reqs[0], "posix_memalign": reqs[1], "mmap": reqs[2], "mmap_hugetlb": reqs[3]},
            "faults_fired": {"operator_new": fired[0], "posix_memalign": fired[1], "mmap": fired[2], "mmap_hugetlb": fired[3],
                             "mprotect_refused": probes.get("seam_mprotect_refused", 0), "alloc_fault_inside_hash": probes.get("alloc_fault_in_hash_fired", 0),
                             "instruction_level_preemptions": probes.get("seam_preempt_fired", 0), "dirty_heap_blocks_and_address_reuse": probes.get("seam_reuse_big", 0) + probes.get("seam_reuse_small", 0) + probes.get("seam_reuse_tiny", 0)},
            "reach_probes": dict(sorted(probes.items())),
            "probes_stuck_at_zero": [p for p in cfg.get("expected_probes", []) if probes.get(p, 0) == 0],
            "determinism_gate_runs_compared": gate_checked,
            "determinism_gate_same_results_different_trace": history_dependent[0],
            "cross_notes_other_properties": [{"cls": k[0], "sig": k[1], "count": v} for k, v in cross.most_common(10)],
            "known_findings_seen": [{"cls": c, "sig": s} for c, s, _ in known_hits],
            "unconfirmed_small_config_anomalies": unconfirmed,
            "components": propcfg.COMPONENTS,
            "infrastructure_problems": infra_problems[:10],
            "invalid_generated_plans_skipped": invalid_total, "invalid_generated_plan_examples": invalid_notes[:6],
        },
        "assumptions": cfg["assumptions"],
        "wall_s": round(wall, 2),
        "violations": n_viol,
    }
    os.makedirs(EVIDENCE, exist_ok=True)
    with open(os.path.join(EVIDENCE, "%s.json" % prop), "w") as f:
        json.dump(ev, f, indent=1)
    for c, s, kf in known_hits:
        print("KNOWN-FINDING: property=%s %s %s" % (prop, c, s))
    for l in out_lines:
        print(l)
    sys.stdout.flush()
    # a violation that passed the replay gate (reproduced twice in fresh processes) is a verdict whatever else went
    # wrong around it; infrastructure problems alone are exit 2
    if n_viol:
        return 1
    if infra_problems:
        for p in infra_problems[:10]:
            log("INFRA:", p)
        return 2
    return 0


def run_replay(path):
    j = json.load(open(path))
    exp = j.get("expect", {})
    variant, config = exp.get("variant", "plain"), exp.get("config", "small-a")
    exe = rxbuild.build(variant, config)
    sym = Symbolizer(exe)
    r = replay_once(exe, j)
    vs = [(v["cls"], sym.sig(v["sig"]), v.get("detail", "")) for v in r.get("violations", [])]
    for v in vs:
        print("replayed violation: %s | %s | %s" % v)
    prop = exp.get("property") or j.get("property", "?")
    if exp and any(v[0] == exp.get("cls") and v[1] == exp.get("sig") for v in vs):
        print("VIOLATION property=%s replay=%s" % (prop, path))
        return 1
    if not exp and vs:
        print("VIOLATION property=%s replay=%s" % (prop, path))
        return 1
    print("replay: expected violation not reproduced" if exp else "replay: no violation")
    return 0


def main():
    ap = argparse.ArgumentParser()
    ap.add_argument("--property")
    ap.add_argument("--tier", default=None)
    ap.add_argument("--seed", type=int, default=None)
    ap.add_argument("--replay")
    ap.add_argument("--budget-scale", type=float, default=1.0)
    a = ap.parse_args()
    try:
        if a.replay:
            sys.exit(run_replay(a.replay))
        tier = a.tier or os.environ.get("VERIF_TIER") or "quick"
        seed = a.seed if a.seed is not None else int(os.environ.get("VERIF_SEED", "1"))
        seed &= (1 << 63) - 1
        sys.exit(run_check(a.property, tier, seed, a.budget_scale))
    except Infra as e:
        log("infrastructure error:", e)
        sys.exit(2)


if __name__ == "__main__":
    main()
