#!/usr/bin/env python3
"""Build cache for rxsim: compiles /repo's current working tree (override: VERIF_REPO) with the
verification hooks on into librx.so and links the simulator against it.

    build(variant, config) -> path of the rxsim binary

variant: plain | tsan | assert       config: shipped | small-a | small-b
Output goes to /verif/build/<variant>-<config>-<hash>/ ; the hash covers every source file of the
repo's src/ tree, the simulator sources and the flags, so an edited tree is always rebuilt.
"""
import hashlib, os, re, shutil, subprocess, sys, concurrent.futures

VERIF = os.path.dirname(os.path.dirname(os.path.dirname(os.path.abspath(__file__))))
SIM = os.path.join(VERIF, "sim")
BUILD_ROOT = os.environ.get("VERIF_BUILD_ROOT", os.path.join(VERIF, "build"))
WRAP = ("-Wl,--wrap=posix_memalign,--wrap=free,--wrap=mmap,--wrap=munmap,--wrap=mprotect"
        ",--wrap=pthread_mutex_lock,--wrap=pthread_mutex_trylock,--wrap=pthread_mutex_unlock,--wrap=pthread_rwlock_rdlock,--wrap=pthread_rwlock_wrlock"
        ",--wrap=pthread_rwlock_unlock,--wrap=pthread_spin_lock,--wrap=pthread_spin_unlock,--wrap=pthread_once,--wrap=__cxa_guard_acquire"
        ",--wrap=__cxa_guard_release,--wrap=__cxa_guard_abort,--wrap=sigaction,--wrap=signal,--wrap=shm_open,--wrap=shm_unlink,--wrap=memfd_create")
SIM_SOURCES = ["rt/rt.cpp", "seams/seams.cpp", "ops/ops.cpp", "ops/exec.cpp", "ops/gen.cpp", "ops/c11.cpp", "ops/main.cpp", "model/model.cpp"]
SIM_TSAN_SOURCES = ["seams/tsan_glue.cpp"]
CONFIG_HEADERS = {"shipped": None, "small-a": "cfg/small_a.h", "small-b": "cfg/small_b.h"}


def repo_dir():
    return os.environ.get("VERIF_REPO", "/repo")


def lib_sources(repo):
    """x86-64 source list, read from the repo's CMakeLists.txt (first set(randomx_sources ...) block)."""
    cm = open(os.path.join(repo, "CMakeLists.txt")).read()
    m = re.search(r"set\(randomx_sources\s+(.*?)\)", cm, re.S)
    srcs = m.group(1).split()
    for extra in ("src/jit_compiler_x86.cpp", "src/jit_compiler_x86_static.S"):
        if extra not in srcs:
            srcs.append(extra)
    return srcs


def tree_hash(repo, variant, config, extra=""):
    h = hashlib.sha256()
    h.update((variant + "|" + config + "|" + extra + "|v8").encode())
    src = os.path.join(repo, "src")
    for root, dirs, files in sorted(os.walk(src)):
        dirs.sort()
        if os.path.basename(root) == "tests":
            dirs[:] = []
            continue
        for f in sorted(files):
            p = os.path.join(root, f)
            h.update(os.path.relpath(p, src).encode())
            with open(p, "rb") as fh:
                h.update(fh.read())
    h.update(open(os.path.join(repo, "CMakeLists.txt"), "rb").read())
    for root, dirs, files in sorted(os.walk(SIM)):
        dirs.sort()
        if os.path.basename(root) in ("driver", "mutants", "__pycache__"):
            dirs[:] = []
            continue
        for f in sorted(files):
            p = os.path.join(root, f)
            h.update(os.path.relpath(p, SIM).encode())
            with open(p, "rb") as fh:
                h.update(fh.read())
    return h.hexdigest()[:16]


def run(cmd, **kw):
    r = subprocess.run(cmd, stdout=subprocess.PIPE, stderr=subprocess.STDOUT, text=True, **kw)
    if r.returncode != 0:
        raise RuntimeError("command failed: %s\n%s" % (" ".join(cmd), r.stdout[-4000:]))
    return r.stdout


def build(variant="plain", config="small-a", verbose=False):
    repo = repo_dir()
    hsh = tree_hash(repo, variant, config)
    out = os.path.join(BUILD_ROOT, "%s-%s-%s" % (variant, config, hsh))
    exe = os.path.join(out, "rxsim")
    if os.path.exists(os.path.join(out, "OK")) and os.path.exists(exe):
        return exe
    # drop stale builds of the same variant/config (disk)
    if os.path.isdir(BUILD_ROOT):
        for d in os.listdir(BUILD_ROOT):
            if d.startswith("%s-%s-" % (variant, config)) and d != os.path.basename(out):
                shutil.rmtree(os.path.join(BUILD_ROOT, d), ignore_errors=True)
    shutil.rmtree(out, ignore_errors=True)
    os.makedirs(os.path.join(out, "lib"))
    os.makedirs(os.path.join(out, "sim"))
    tsan = variant == "tsan"
    cc, cxx = ("clang", "clang++") if tsan else ("gcc", "g++")
    defs = ["-DRANDOMX_VERIF"]
    cfgh = CONFIG_HEADERS[config]
    if cfgh:
        defs += ["-DRANDOMX_UNSAFE", '-DRANDOMX_VERIF_CONFIG_H="%s"' % os.path.join(SIM, cfgh)]
    if variant != "assert":
        defs.append("-DNDEBUG")
    base = ["-O2", "-maes", "-fPIC", "-Wno-error", "-w"] + defs
    if tsan:
        base += ["-fsanitize=thread", "-g1"]
    jobs = []
    objs = []
    for s in lib_sources(repo):
        src = os.path.join(repo, s)
        obj = os.path.join(out, "lib", os.path.basename(s) + ".o")
        objs.append(obj)
        if s.endswith(".S"):
            cmd = ["gcc", "-x", "assembler-with-cpp", "-c", src, "-o", obj, "-fPIC"] + defs
        elif s.endswith(".c"):
            extra = ["-mssse3"] if s.endswith("argon2_ssse3.c") else ["-mavx2"] if s.endswith("argon2_avx2.c") else []
            cmd = [cc] + base + extra + ["-c", src, "-o", obj]
        else:
            cmd = [cxx, "-std=gnu++11"] + base + ["-c", src, "-o", obj]
        jobs.append(cmd)
    sim_objs = []
    sim_defs = defs + ['-DRXSIM_CONFIG_NAME="%s"' % config, "-I" + os.path.join(repo, "src")]
    if tsan:
        sim_defs.append("-DRXSIM_TSAN")
    srcs = SIM_SOURCES + (SIM_TSAN_SOURCES if tsan else [])
    for s in srcs:
        obj = os.path.join(out, "sim", s.replace("/", "_") + ".o")
        sim_objs.append(obj)
        # the simulator itself is never instrumented
        jobs.append(["g++", "-std=c++17", "-O2", "-g1", "-maes", "-Wall", "-Wno-unused-function", "-Wno-misleading-indentation", "-Wno-parentheses"] + sim_defs + ["-c", os.path.join(SIM, s), "-o", obj])
    with concurrent.futures.ThreadPoolExecutor(max_workers=os.cpu_count() or 4) as ex:
        for res in ex.map(lambda c: run(c), jobs):
            if verbose and res.strip():
                print(res)
    lib = os.path.join(out, "librx.so")
    link = [cxx, "-shared", "-o", lib] + objs + [WRAP, "-Wl,-z,noexecstack", "-Wl,-z,relro", "-Wl,-z,now"]
    if tsan:
        link.append("-fsanitize=thread")
    run(link)
    if tsan:
        # link with the C driver: it adds libclang_rt.tsan but not tsan_cxx (whose operator new/delete
        # interceptors would collide with the simulator's replaced global operator new/delete; ours call
        # malloc/free, which TSan intercepts)
        link2 = ["clang", "-fsanitize=thread", "-o", exe] + sim_objs + ["-L" + out, "-lrx", "-Wl,-rpath," + out, "-lstdc++", "-lm", "-lpthread", "-rdynamic"]
    else:
        link2 = [cxx, "-o", exe] + sim_objs + ["-L" + out, "-lrx", "-Wl,-rpath," + out, "-lpthread", "-rdynamic"]
    run(link2)
    run([exe, "info"])
    open(os.path.join(out, "OK"), "w").write("ok\n")
    return exe


if __name__ == "__main__":
    import argparse
    ap = argparse.ArgumentParser()
    ap.add_argument("--variant", default="plain")
    ap.add_argument("--config", default="small-a")
    ap.add_argument("--all", action="store_true")
    a = ap.parse_args()
    if a.all:
        combos = [("plain", "small-a"), ("plain", "small-b"), ("plain", "shipped"), ("tsan", "small-a"), ("tsan", "shipped"), ("assert", "small-a")]
        for v, c in combos:
            print(build(v, c))
    else:
        print(build(a.variant, a.config, verbose=True))
