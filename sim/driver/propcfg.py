"""Per-property configuration of the rxsim checks: batches per tier, relevant violation classes,
evidence texts."""

CRASH = ["CRASH_SEGV", "CRASH_BUS", "CRASH_FPE", "CRASH_ILL", "CRASH_ABRT", "TERMINATE"]

COMPONENTS = {
    "real": [
        "every .c/.cpp/.S of /repo/src in the x86-64 build (incl. JIT-emitted code, AES-NI/SSSE3/AVX2 paths), rebuilt from the working tree with -DRANDOMX_VERIF",
        "caller threads: real pthreads, exactly one runnable at a time; the seeded scheduler decides who",
        "mmap/munmap/mprotect system calls and the kernel's page protection (behind a recording, fault-injecting wrapper)",
    ],
    "stub": [
        "heap for library requests (plain variant): simulated arena heap with guard pages, quarantine, seeded reuse policy and noise fill",
        "huge-page pool: MAP_HUGETLB requests are served from ordinary pages (the sandbox has nr_hugepages=0) or denied by an injected fault",
        "reference models: fresh-object digest memo, dataset-item spec reading, BLAKE2b from RFC 7693, page-protection model, heap ledger",
    ],
    "absent": ["clock, timers, network, disk: RandomX has none, nothing is simulated or injected for them"],
}

HIST_RULE = ("seeded API histories in the rxsim op language, generated inside the documented contract; a case is one history; "
             "distinct_nontrivial counts distinct history shapes (hash of the op-kind/flag/task/fault/heap-policy sequence) per build")


def B(name, variant, config, runs, budget_s, workers=16, mode="", gate=None, hang_s=None):
    d = {"name": name, "variant": variant, "config": config, "runs": runs, "budget_s": budget_s, "workers": workers, "mode": mode}
    if hang_s is not None:
        d["hang_s"] = hang_s
    if gate is not None:
        d["gate"] = gate
    return d


PROPERTIES = {
    "C03": {
        "level": "exploration",
        "classes": ["DIGEST_MISMATCH", "CACHE_CHECKSUM", "MODEL_NOISE_DEPENDENCE", "UNEXPECTED_NULL"] + CRASH,
        "rule": HIST_RULE + "; oracle: every digest equals the fresh-object model for the key the contract model says the VM is bound to",
        "assumptions": [
            "fresh-object model = the same library build on fresh objects (history dependence is what is decided, not cross-configuration equality)",
            "histories stay inside the documented contract (randomx.h comments); the assert variant audits the generator",
            "reduced configurations exercise the shipped code paths with smaller constants; violations found there are re-run on the shipped configuration",
        ],
        "expected_probes": ["set_cache_noop", "set_cache_other_object", "init_cache_shortcut", "rekey", "address_reuse_big_same_small_diff", "version_switch",
                            "release_cache_with_live_vm", "batch_next", "cache_checksum_checked", "destroy_inside_batch", "final_fprc_nonzero"],
        "tiers": {
            "quick": [B("small-a", "plain", "small-a", 6000, 35), B("small-b", "plain", "small-b", 2000, 12), B("shipped", "plain", "shipped", 40, 40, workers=8, gate=4)],
            "thorough": [B("small-a", "plain", "small-a", 150000, 420), B("small-b", "plain", "small-b", 60000, 180), B("shipped", "plain", "shipped", 1200, 420, workers=8, gate=8),
                         B("contract-audit", "assert", "small-a", 3000, 40)],
        },
    },
    "C13": {
        "level": "exploration",
        "classes": ["MXCSR_CHANGED", "DIGEST_MISMATCH"] + CRASH,
        "rule": HIST_RULE + "; every hash/first/next/last is entered under a generated MXCSR (rounding x FTZ x DAZ x exception masks x sticky flags) and a derived x87 control word (precision and rounding control); "
                "oracle: MXCSR and x87 control word after single-call hash == before, digests == fresh-object model computed under the default environment; "
                "the threads batches run 2-4 simulated threads hashing at the same time (switches at the scheduling points inside a hash), each call under its own MXCSR",
        "assumptions": ["only hash calls are perturbed (the property says nothing about other calls)", "MXCSR and the x87 control word together are the x86-64 floating-point environment (what fegetenv saves); the x87 status word and tag word are not perturbed",
                        "model digests are computed under MXCSR=0x1F80"],
        "expected_probes": ["env_attached", "batch_next", "final_fprc_nonzero"],
        "exhaustive": {"thorough": True},
        "tiers": {
            "quick": [B("small-a", "plain", "small-a", 5000, 30), B("small-b", "plain", "small-b", 1500, 10), B("envscan-sample", "plain", "small-a", 224, 25, mode="envscan"),
                      B("threads-small-a", "plain", "small-a", 4000, 15, mode="threads"), B("shipped", "plain", "shipped", 40, 40, workers=8, gate=4)],
            "thorough": [B("small-a", "plain", "small-a", 100000, 300), B("small-b", "plain", "small-b", 40000, 120), B("envscan-all-65536", "plain", "small-a", 3584, 600, mode="envscan"),
                         B("threads-small-a", "plain", "small-a", 80000, 180, mode="threads"), B("threads-shipped", "plain", "shipped", 200, 180, workers=8, mode="threads", gate=4),
                         B("shipped", "plain", "shipped", 1000, 360, workers=8, gate=8), B("contract-audit", "assert", "small-a", 3000, 40)],
        },
    },
    "C15": {
        "level": "fault_enumeration",
        "classes": ["FAULT_NOT_NULL", "LEAK_ON_FAILURE", "LEAK_AT_QUIESCENCE", "UNEXPECTED_NULL", "DIGEST_MISMATCH", "BAD_MUNMAP", "DOUBLE_MUNMAP", "BAD_FREE", "DOUBLE_FREE", "HEAP_OVERRUN"] + CRASH,
        "rule": "enumeration: for every creating call x flag set, the k-th allocation request fails for every k (and k together with k+1), followed by the same call without a fault and a hash on the result; "
                "the enum-cold batches run every enumeration item in a process of its own, cold (no warm-up, no earlier library call): the failing call is then the first of its kind the process makes, one-time initialisations included; "
                "seeded: histories with faults attached to creating calls among other live objects; a case is one history; distinct_nontrivial counts distinct history shapes",
        "assumptions": ["allocation requests = operator new, posix_memalign (_mm_malloc), mmap, mmap(MAP_HUGETLB) issued inside the call; malloc inside libstdc++'s exception allocation is not a request",
                        "allocation faults are injected in the three creating calls only (what C15 is about); mprotect/munmap failures are not injected here", "leak check: library-scope live blocks and mapped bytes, exact, around failed calls and at quiescence of every run"],
        "expected_probes": ["creating_call_failed_cleanly"],
        "exhaustive": {"quick": True, "thorough": True},
        "tiers": {
            "quick": [B("enum-small-a", "plain", "small-a", 100000, 40, mode="enum"), B("enum-cold-small-a", "plain", "small-a", 100000, 20, mode="enum-cold"), B("seeded-small-a", "plain", "small-a", 4000, 30), B("enum-shipped", "plain", "shipped", 100000, 60, workers=8, mode="enum", gate=2),
                      B("seeded-shipped", "plain", "shipped", 24, 25, workers=8, gate=2)],
            "thorough": [B("enum-small-a", "plain", "small-a", 100000, 300, mode="enum"), B("enum-small-b", "plain", "small-b", 100000, 300, mode="enum"), B("enum-cold-small-a", "plain", "small-a", 100000, 120, mode="enum-cold"), B("enum-cold-small-b", "plain", "small-b", 100000, 120, mode="enum-cold"), B("seeded-small-a", "plain", "small-a", 100000, 300),
                         B("enum-shipped", "plain", "shipped", 100000, 600, workers=8, mode="enum", gate=8), B("seeded-shipped", "plain", "shipped", 600, 300, workers=8, gate=8), B("contract-audit", "assert", "small-a", 3000, 40)],
        },
    },
    "C16": {
        "level": "exploration",
        "classes": ["WX", "WX_KERNEL", "PROT_MODEL_MISMATCH", "BAD_MPROTECT"] + CRASH,
        "rule": HIST_RULE + "; only SECURE VMs are created; oracle: page-protection state machine at the mmap/mprotect seam (no page of a cache-owned or secure-VM-owned code buffer is ever W and X), "
                "kernel view from /proc/self/maps compared with the model at a seeded subset of op boundaries",
        "assumptions": ["code buffers are exactly the non-hugetlb mappings the library requests (anonymous ones live in the simulator's arena, views of file/shm objects are mapped by the kernel and tracked)",
                        "protection changes that bypass mmap/mprotect (none exist on Linux) would only be seen by the /proc/self/maps audit",
                        "faults: allocation failure in creating calls and inside a single-call hash (the caller catches and goes on), refused mprotect requests (after one, only W+X facts are judged; the unchanged library may crash because it ignores the result)"],
        "expected_probes": ["seam_rw_rx", "seam_audits"],
        "tiers": {
            "quick": [B("small-a", "plain", "small-a", 4000, 30), B("small-b", "plain", "small-b", 1000, 10), B("shipped", "plain", "shipped", 40, 40, workers=8, gate=4)],
            "thorough": [B("small-a", "plain", "small-a", 100000, 300), B("small-b", "plain", "small-b", 40000, 120), B("shipped", "plain", "shipped", 1000, 360, workers=8, gate=8), B("contract-audit", "assert", "small-a", 3000, 40)],
        },
    },
    "C14": {
        "level": "exploration",
        "classes": ["TSAN_RACE", "ASM_GLOBAL_RACE", "PROCESS_STATE_RACE", "MAP_FIXED_CLOBBER", "CACHE_CHECKSUM", "DIGEST_MISMATCH", "DATASET_ITEM_MISMATCH", "DATASET_WRITE_OUTSIDE", "DATASET_MODEL_DISAGREE", "UNEXPECTED_NULL"] + CRASH,
        "rule": "seeded plans: shared cache(s)/dataset set up by the main task, then 2-4 simulated threads with own VMs of all flag sets, disjoint init_dataset ranges and private objects, run under the seeded scheduler; "
                "a case is one (plan, schedule); distinct_nontrivial counts distinct plan shapes; distinct interleavings reported separately; "
                "oracles: TSan happens-before reports (scheduler invisible to TSan), digests/dataset/private-cache contents == sequential model, read-only page guards on shared data, "
                "signal dispositions unchanged by a concurrent phase; the preempt batches additionally suspend a thread between two arbitrary instructions of a call (single-step trap after k library instructions "
                "counted from the j-th scheduling point inside the call) - also inside hand-written assembly, JIT-emitted code and vector code the race detector cannot instrument",
        "assumptions": ["TSan sees instrumented C/C++ only; JIT-emitted code and the .S runtime are covered by results-vs-model and read-only page guards",
                        "TSan's bounded per-thread history can miss a race, never invent one; reports are accepted only if both accesses originate in librx.so",
                        "threads are serialised by the simulator: real-time overlap is replaced by happens-before analysis, by cooperative switches at scheduling points and by single-step preemption inside calls",
                        "the reference model runs in the same process as the code under test (a change that adds process-wide registries sees the model's objects too)",
                        "critical sections of locks the library takes (pthread mutex/rwlock/spin, pthread_once, static-initialisation guards) are atomic steps of the schedule"],
        "expected_probes": ["shared_cache_phase", "shared_dataset_phase", "concurrent_dataset_init_phase", "ro_guard"],
        "tiers": {
            "quick": [B("tsan-small-a", "tsan", "small-a", 1500, 40), B("plain-small-a", "plain", "small-a", 3000, 20), B("plain-small-b", "plain", "small-b", 1000, 8),
                      B("preempt-small-a", "plain", "small-a", 3000, 25, mode="preempt"), B("plain-shipped", "plain", "shipped", 24, 15, workers=8, gate=2), B("tsan-shipped", "tsan", "shipped", 4, 30, workers=4, gate=1)],
            "thorough": [B("tsan-small-a", "tsan", "small-a", 40000, 420), B("tsan-small-b", "tsan", "small-b", 15000, 180), B("plain-small-a", "plain", "small-a", 150000, 300),
                         B("plain-small-b", "plain", "small-b", 50000, 120), B("preempt-small-a", "plain", "small-a", 100000, 420, mode="preempt"), B("preempt-small-b", "plain", "small-b", 30000, 120, mode="preempt"),
                         B("preempt-shipped", "plain", "shipped", 300, 240, workers=8, mode="preempt", gate=4), B("tsan-shipped", "tsan", "shipped", 300, 420, workers=8, gate=4), B("plain-shipped", "plain", "shipped", 300, 240, workers=8, gate=4), B("full-dataset-shipped-plain", "plain", "shipped", 2, 1200, workers=2, mode="fullshipped", gate=0, hang_s=3600),
                         B("full-dataset-shipped-tsan", "tsan", "shipped", 1, 1800, workers=1, mode="fullshipped", gate=0, hang_s=3600), B("contract-audit", "assert", "small-a", 3000, 40)],
        },
    },
    "C08": {
        "level": "exploration",
        "classes": ["DATASET_ITEM_MISMATCH", "DATASET_WRITE_OUTSIDE", "DATASET_MODEL_DISAGREE", "DIGEST_MISMATCH", "TSAN_RACE", "ASM_GLOBAL_RACE", "UNEXPECTED_NULL"] + CRASH,
        "rule": "seeded plans: disjoint target ranges (counts 0-3, multiples and non-multiples of 4, last item, page-straddling, adjacent), a partition into init_dataset calls, assignment to 1-4 simulated threads and a schedule; "
                "poisoned prepared region, inaccessible remainder; oracle: requested items == initDatasetItem on a fresh cache == independent spec reading, everything else still poison; "
                "a case is one (plan, schedule); distinct_nontrivial counts distinct plan shapes; the keysweep batch additionally sweeps random keys (24 per plan, a small compiled/interpreted range each) - an input sweep, not a schedule/fault dimension",
        "assumptions": ["write-set containment plus read-only inputs make the result independent of the interleaving; one serialised schedule per plan is executed",
                        "the independent spec reading uses the cache's SuperscalarHash instruction lists and reciprocal table (their generation is C09/C18)"],
        "expected_probes": ["dataset_branch_lt4", "dataset_branch_mult4", "dataset_branch_tail", "dataset_last_item", "ds_items_checked", "ds_poison_checked"],
        "tiers": {
            "quick": [B("plain-small-a", "plain", "small-a", 4000, 30), B("plain-small-b", "plain", "small-b", 1500, 10), B("keysweep-small-a", "plain", "small-a", 100000, 25, mode="keysweep"), B("preempt-small-a", "plain", "small-a", 2000, 15, mode="preempt"), B("tsan-small-a", "tsan", "small-a", 600, 20),
                      B("plain-shipped", "plain", "shipped", 64, 40, workers=8, gate=4)],
            "thorough": [B("plain-small-a", "plain", "small-a", 150000, 300), B("plain-small-b", "plain", "small-b", 60000, 120), B("keysweep-small-a", "plain", "small-a", 1000000, 300, mode="keysweep"), B("preempt-small-a", "plain", "small-a", 60000, 240, mode="preempt"), B("tsan-small-a", "tsan", "small-a", 20000, 240),
                         B("plain-shipped", "plain", "shipped", 2000, 420, workers=8, gate=8), B("full-dataset-shipped", "plain", "shipped", 3, 1500, workers=3, mode="fullshipped", gate=0, hang_s=3600),
                         B("contract-audit", "assert", "small-a", 3000, 40)],
        },
    },
    "C11": {
        "level": "exploration",
        "classes": ["B2_DIGEST", "B2_INIT_STATUS", "B2_UPDATE_STATUS", "B2_FINAL_STATUS", "B2_ONESHOT_STATUS", "B2_ACCEPTED_INVALID", "B2_WRITE_ON_REJECT", "B2_OUTPUT_OVERRUN", "COMMITMENT_MISMATCH", "COMMITMENT_THREW", "TSAN_RACE"] + CRASH,
        "rule": "simulated stream reader: 1-4 concurrent blake2b states (outlen 1-64, optional key, message lengths biased to block boundaries) fed in seeded chunkings and interleavings, early finals, misuse after final, invalid-parameter calls, "
                "single-call cross-check, commitment, empty chunks and empty messages also as (NULL, 0); oracle: BLAKE2b written from RFC 7693, operation by operation; a case is one stream plan; distinct_nontrivial counts distinct (streams, steps) shapes; "
                "the streams-threads batch gives the states to 2-4 simulated caller threads under the race detector (independent states must not share mutable library state)",
        "assumptions": ["the RFC 7693 model was written independently for this work", "'for every message/outlen/key' is sampled only as far as these streams go; the simulation decides the chunking/interleaving/misuse half"],
        "expected_probes": ["early_finals", "zero_length_chunks", "interleaved_switches", "misuse_calls"],
        "confirm_on_shipped": False,
        "tiers": {
            "quick": [B("streams", "plain", "small-a", 200000, 40), B("streams-threads", "tsan", "small-a", 30000, 15, mode="threads")],
            "thorough": [B("streams", "plain", "small-a", 4000000, 600), B("streams-threads", "tsan", "small-a", 600000, 240, mode="threads")],
        },
    },
}
