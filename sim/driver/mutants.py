#!/usr/bin/env python3
"""Sensitivity proof: applies each mutant of sim/mutants/mutants.json to a scratch copy of /repo (outside /repo
and /verif), optionally runs the repository's own test suite on it, runs the named check against it
(VERIF_REPO=<scratch>) and expects exit 1. The scratch copy and its build output are removed afterwards.

    mutants.py [--only id,id] [--tests] [--tier quick] [--budget-scale 0.5]
"""
import argparse, json, os, shutil, subprocess, sys, tempfile, time

HERE = os.path.dirname(os.path.abspath(__file__))
VERIF = os.path.dirname(os.path.dirname(HERE))


def apply(m, root):
    if "patch" in m:   # a unified diff next to the json file (paths a/src/..., b/src/...)
        subprocess.run(["patch", "-p1", "-s", "-d", root, "-i", os.path.join(VERIF, "sim", "mutants", m["patch"])], check=True)
        return
    p = os.path.join(root, m["file"])
    s = open(p).read()
    for a, b in (("pre_old", "pre_new"), ("old", "new")):
        if a in m:
            if s.count(m[a]) < 1:
                raise RuntimeError("mutant %s: pattern %r not found in %s" % (m["id"], m[a][:50], m["file"]))
            s = s.replace(m[a], m[b], 1)
    if m["id"] == "c03_setcache_no_regen":
        s = s.replace("\t\tif (secureJit) {\n\t\t\tcompiler.enableExecution();\n\t\t}\n\t}\n\n\ttemplate<class Allocator, bool softAes, bool secureJit>\n\tvoid CompiledLightVm<Allocator, softAes, secureJit>::run",
                      "\t\tif (secureJit) {\n\t\t\tcompiler.enableExecution();\n\t\t}\n\t\tcachePtr = cache;\n\t}\n\n\ttemplate<class Allocator, bool softAes, bool secureJit>\n\tvoid CompiledLightVm<Allocator, softAes, secureJit>::run", 1)
    open(p, "w").write(s)


def main():
    ap = argparse.ArgumentParser()
    ap.add_argument("--only", default="")
    ap.add_argument("--tests", action="store_true")
    ap.add_argument("--tier", default="quick")
    ap.add_argument("--budget-scale", type=float, default=0.5)
    ap.add_argument("--repo", default="/repo")
    ap.add_argument("--set", default="mutants", help="mutants (must be caught: exit 1) or benign (behaviour-preserving changes: must pass, exit 0)")
    a = ap.parse_args()
    muts = json.load(open(os.path.join(VERIF, "sim", "mutants", a.set + ".json")))
    only = set(x for x in a.only.split(",") if x)
    results = []
    for m in muts:
        if only and m["id"] not in only:
            continue
        scratch = tempfile.mkdtemp(prefix="rxmut-")
        try:
            repo = os.path.join(scratch, "repo")
            subprocess.run(["rsync", "-a", "--exclude", "_build", "--exclude", ".git", a.repo + "/", repo + "/"], check=True)
            apply(m, repo)
            tests = "skipped"
            if a.tests:
                bdir = os.path.join(scratch, "_build")
                r = subprocess.run("cmake -G Ninja -S %s -B %s >/dev/null && cmake --build %s >/dev/null 2>&1 && %s/randomx-tests" % (repo, bdir, bdir, bdir), shell=True, stdout=subprocess.PIPE, stderr=subprocess.STDOUT, text=True)
                tests = "pass" if (r.returncode == 0 and "All tests PASSED" in r.stdout) else "FAIL"
            env = dict(os.environ, VERIF_REPO=repo, VERIF_OUT=os.path.join(scratch, "out"), VERIF_BUILD_ROOT=os.path.join(scratch, "build"))
            t0 = time.time()
            r = subprocess.run([sys.executable, os.path.join(HERE, "check.py"), "--property", m["property"], "--tier", a.tier, "--budget-scale", str(a.budget_scale)],
                               env=env, stdout=subprocess.PIPE, stderr=subprocess.PIPE, text=True)
            viol = [l for l in r.stdout.splitlines() if l.startswith("VIOLATION")]
            sigs = [l.split("violation:", 1)[1].strip()[:160] for l in r.stderr.splitlines() if "violation:" in l]
            res = {"id": m["id"], "property": m["property"], "tests": tests, "rc": r.returncode, "violations": len(viol), "wall_s": round(time.time() - t0, 1), "signatures": sigs[:3]}
            if r.returncode == 2:
                res["stderr_tail"] = r.stderr.splitlines()[-5:]
            results.append(res)
            print(json.dumps(res), flush=True)
        finally:
            shutil.rmtree(scratch, ignore_errors=True)
    caught = sum(1 for r in results if r["rc"] == 1)
    print("%s: exit 1 for %d of %d, exit 0 for %d" % (a.set, caught, len(results), sum(1 for r in results if r["rc"] == 0)))
    out = os.path.join(VERIF, "sim", "mutants", "results.json" if a.set == "mutants" else "results_%s.json" % a.set)
    if not only:
        json.dump(results, open(out, "w"), indent=1)


if __name__ == "__main__":
    main()
